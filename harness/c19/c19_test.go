// Package c19 checks property C19: "Yoda files exactly one complete, chain-acceptable report per request".
//
// The daemon code under test is yoda/handler.go (handleTransaction / handleRequest / handleRawRequests /
// handleRawRequest) and yoda/execute.go (GetRequest / GetDataSourceHash / GetExecutable / abciQuery), reached
// through the add-only hook /repo/yoda/export_verif.go. Requests, data sources and the selected validator sets
// are produced by the real chain (sim), the RPC stub answers the daemon's ABCI queries from that chain's app,
// the executor is a stub whose outcome per (request id, external id) is part of the generated case.
package c19

import (
	"bytes"
	"context"
	"encoding/binary"
	"encoding/json"
	"errors"
	"fmt"
	"os"
	"path/filepath"
	"runtime"
	"sort"
	"strconv"
	"strings"
	"sync"
	"sync/atomic"
	"testing"
	"time"

	"pgregory.net/rapid"

	abci "github.com/cometbft/cometbft/abci/types"
	cmtbytes "github.com/cometbft/cometbft/libs/bytes"
	rpcclient "github.com/cometbft/cometbft/rpc/client"
	ctypes "github.com/cometbft/cometbft/rpc/core/types"

	"cosmossdk.io/log"

	"github.com/cosmos/cosmos-sdk/codec"
	codectypes "github.com/cosmos/cosmos-sdk/codec/types"
	cryptocodec "github.com/cosmos/cosmos-sdk/crypto/codec"
	"github.com/cosmos/cosmos-sdk/crypto/hd"
	"github.com/cosmos/cosmos-sdk/crypto/keyring"
	sdk "github.com/cosmos/cosmos-sdk/types"

	band "github.com/bandprotocol/chain/v3/app"
	"github.com/bandprotocol/chain/v3/pkg/filecache"
	oracletypes "github.com/bandprotocol/chain/v3/x/oracle/types"
	"github.com/bandprotocol/chain/v3/yoda"
	"github.com/bandprotocol/chain/v3/yoda/executor"

	"verif/harness/gen"
	"verif/harness/pbt"
	"verif/harness/sim"
)

// ---- case --------------------------------------------------------------------------------------------

type c19DS struct {
	Len      int  `json:"len"`                // executable length in bytes
	Seed     int  `json:"seed"`               // content pattern (same len+seed => same file => same hash)
	Cached   bool `json:"cached,omitempty"`   // already present in the daemon's file cache
	PermFail bool `json:"permfail,omitempty"` // every Query/Data for this file fails (cannot be fetched)
}

type c19Raw struct {
	DS       int    `json:"ds"` // index into DSs (mod len)
	EID      uint64 `json:"eid"`
	Calldata []byte `json:"calldata"`
	Kind     string `json:"kind"` // ok | err   (executor outcome for this raw request)
	Code     uint32 `json:"code"`
	OutLen   int    `json:"outlen"`
	OutSeed  int    `json:"outseed"`
	DelayUs  int    `json:"delay_us,omitempty"`
}

type c19Req struct {
	Ask    int      `json:"ask"`
	Min    int      `json:"min"`
	Client string   `json:"client,omitempty"`
	Raws   []c19Raw `json:"raws"`
}

type c19Tx struct {
	Reqs []c19Req `json:"reqs"`
	Bad  bool     `json:"bad,omitempty"` // last message asks for more validators than exist => whole tx fails on chain
}

type c19Case struct {
	NVals     int     `json:"nvals"`
	Active    []bool  `json:"active"`
	Me        int     `json:"me"` // index of the validator the daemon works for
	DSs       []c19DS `json:"dss"`
	Txs       []c19Tx `json:"txs"`
	Mode      string  `json:"mode"` // direct | direct-go | tx | tx-go
	Rot       int     `json:"rot,omitempty"`
	Rev       bool    `json:"rev,omitempty"`
	Ghost     bool    `json:"ghost,omitempty"` // direct modes: also handle a request id that does not exist
	MaxTry    int     `json:"max_try"`
	StoreFail int     `json:"store_fail,omitempty"` // the first k /store queries fail
	DataFail  int     `json:"data_fail,omitempty"`  // the first k Query/Data queries (of fetchable files) fail
	Yield     bool    `json:"yield,omitempty"`      // RPC stub yields the processor on every call
	NKeys     int     `json:"nkeys"`                // 1 or 3 reporter keys
	Procs     int     `json:"procs,omitempty"`      // GOMAXPROCS for this case (0 = leave)
	ExclShort int     `json:"excl_short,omitempty"` // number of short executables remapped because of the known finding
}

const sigCrash = "C19/daemon-crash"

func minExecLen() int {
	if s := os.Getenv("VERIF_C19_MINEXEC"); s != "" {
		if n, err := strconv.Atoi(s); err == nil && n >= 1 {
			return n
		}
	}
	if pbt.IsExcluded("C19", sigCrash) {
		return 32
	}
	return 1
}

func genC19(rt *rapid.T) c19Case {
	minLen := minExecLen()
	c := c19Case{}
	c.NVals = rapid.IntRange(1, 4).Draw(rt, "nvals")
	nActive := 0
	for i := 0; i < c.NVals; i++ {
		a := i == 0 || gen.Chance(rt, "act", 8, 10)
		c.Active = append(c.Active, a)
		if a {
			nActive++
		}
	}
	c.Me = gen.Uniform(rt, "me", c.NVals)
	nds := rapid.IntRange(1, 4).Draw(rt, "nds")
	for i := 0; i < nds; i++ {
		var l int
		switch gen.Pick(rt, "lencat", 30, 12, 28, 20, 10) {
		case 0:
			l = gen.Range(rt, "short", 1, 31)
		case 1:
			l = gen.OneOf(rt, "bnd", 24, 25, 31, 32, 33)
		case 2:
			l = gen.Range(rt, "mid", 34, 300)
		case 3:
			l = gen.Range(rt, "big", 301, 4095)
		default:
			l = gen.OneOf(rt, "edge", 1, 4096, 4096, 512, 513)
		}
		if l < minLen {
			l = minLen + l // stays small, but outside the excluded region
			c.ExclShort++
		}
		c.DSs = append(c.DSs, c19DS{Len: l, Seed: gen.Uniform(rt, "seed", 3),
			Cached: gen.Chance(rt, "cached", 1, 3), PermFail: gen.Chance(rt, "permfail", 1, 6)})
	}
	c.Mode = gen.OneOf(rt, "mode", "direct", "direct", "direct-go", "tx", "tx", "tx-go")
	ntx := rapid.IntRange(1, 3).Draw(rt, "ntx")
	for t := 0; t < ntx; t++ {
		tx := c19Tx{Bad: gen.Chance(rt, "bad", 1, 15)}
		nreq := rapid.IntRange(1, 3).Draw(rt, "nreq")
		for r := 0; r < nreq; r++ {
			ask := gen.Range(rt, "ask", 1, nActive)
			q := c19Req{Ask: ask, Min: gen.Range(rt, "min", 1, ask), Client: rapid.StringMatching(`[a-z]{0,4}`).Draw(rt, "client")}
			nraw := gen.OneOf(rt, "nraw", 1, 2, 2, 3, 3, 4, 5, 6)
			used := map[uint64]bool{}
			prev := 0
			for j := 0; j < nraw; j++ {
				ds := gen.Uniform(rt, "ds", nds)
				if j > 0 && gen.Chance(rt, "repeat", 1, 3) {
					ds = prev
				}
				prev = ds
				eid := uint64(gen.OneOf(rt, "eid", 1, 2, 3, 4, 5, 6, 7, 100, 255, 256, 65535, 1<<31-1))
				for used[eid] {
					eid++
				}
				used[eid] = true
				raw := c19Raw{DS: ds, EID: eid, Calldata: rapid.SliceOfN(rapid.Byte(), 0, 20).Draw(rt, "calldata")}
				switch gen.Pick(rt, "kind", 5, 3, 2) {
				case 0:
					raw.Kind, raw.Code = "ok", 0
				case 1:
					raw.Kind, raw.Code = "ok", gen.OneOf[uint32](rt, "code", 1, 2, 111, 126, 255, 256, 1<<32-1)
				default:
					raw.Kind = "err"
				}
				raw.OutLen = gen.OneOf(rt, "outlen", 0, 0, 1, 8, 24, 100, 512, 600)
				raw.OutSeed = gen.Uniform(rt, "outseed", 250)
				raw.DelayUs = gen.OneOf(rt, "delay", 0, 0, 0, 20, 100, 400, 1500)
				q.Raws = append(q.Raws, raw)
			}
			tx.Reqs = append(tx.Reqs, q)
		}
		c.Txs = append(c.Txs, tx)
	}
	c.Rot = gen.Uniform(rt, "rot", 4)
	c.Rev = gen.Chance(rt, "rev", 1, 3)
	c.Ghost = gen.Chance(rt, "ghost", 1, 10)
	c.MaxTry = gen.Range(rt, "maxtry", 1, 3)
	switch gen.Pick(rt, "storefail", 60, 32, 8) {
	case 1:
		if c.MaxTry > 1 {
			c.StoreFail = gen.Range(rt, "sf", 1, c.MaxTry-1)
		}
	case 2:
		c.StoreFail = gen.Range(rt, "sfx", c.MaxTry, 2*c.MaxTry)
	}
	switch gen.Pick(rt, "datafail", 50, 30, 20) {
	case 1:
		if c.MaxTry > 1 {
			c.DataFail = gen.Range(rt, "df", 1, c.MaxTry-1)
		}
	case 2:
		c.DataFail = gen.Range(rt, "dfx", c.MaxTry, 3*c.MaxTry)
	}
	c.Yield = gen.Chance(rt, "yield", 1, 2)
	c.NKeys = gen.OneOf(rt, "nkeys", 1, 3)
	c.Procs = gen.OneOf(rt, "procs", 0, 0, 1, 2, 4, 16)
	return c
}

// ---- fixed material ----------------------------------------------------------------------------------

func execBytes(d c19DS) []byte {
	n := d.Len
	if n < 1 {
		n = 1
	}
	if n > oracletypes.MaxExecutableSize {
		n = oracletypes.MaxExecutableSize
	}
	b := make([]byte, n)
	for i := range b {
		b[i] = byte((i*131 + d.Seed*29 + 7) % 251)
	}
	if n >= 2 {
		b[0], b[1] = '#', '!'
	}
	return b
}

func outBytes(r c19Raw) []byte {
	n := r.OutLen
	if n < 0 {
		n = 0
	}
	if n > 4096 {
		n = 4096
	}
	b := make([]byte, n)
	for i := range b {
		b[i] = byte(i*7 + r.OutSeed)
	}
	return b
}

// c19Script is one generic oracle script: prepare() reads the request calldata as a list of records
// (external id i64 LE, data source id i64 LE, calldata length i64 LE, calldata bytes) and asks each of them.
var c19ScriptOnce struct {
	sync.Once
	wasm []byte
}

func c19Script() []byte {
	c19ScriptOnce.Do(func() {
		c19ScriptOnce.wasm = sim.Wat(`(module
 (type $t0 (func))
 (type $t1 (func (param i64 i64 i64 i64)))
 (type $t2 (func (param i64 i64)))
 (type $t3 (func (param i64) (result i64)))
 (import "env" "read_calldata" (func $read_calldata (type $t3)))
 (import "env" "ask_external_data" (func $ask (type $t1)))
 (import "env" "set_return_data" (func $ret (type $t2)))
 (func $prepare (export "prepare") (type $t0)
   (local $ptr i64) (local $end i64) (local $len i64)
   (local.set $ptr (i64.const 1024))
   (local.set $end (i64.add (i64.const 1024) (call $read_calldata (i64.const 1024))))
   (block $done
     (loop $l
       (br_if $done (i64.gt_s (i64.add (local.get $ptr) (i64.const 24)) (local.get $end)))
       (local.set $len (i64.load (i32.wrap_i64 (i64.add (local.get $ptr) (i64.const 16)))))
       (call $ask
         (i64.load (i32.wrap_i64 (local.get $ptr)))
         (i64.load (i32.wrap_i64 (i64.add (local.get $ptr) (i64.const 8))))
         (i64.add (local.get $ptr) (i64.const 24))
         (local.get $len))
       (local.set $ptr (i64.add (local.get $ptr) (i64.add (i64.const 24) (local.get $len))))
       (br $l))))
 (func $execute (export "execute") (type $t0)
   (call $ret (i64.const 512) (i64.const 2)))
 (memory (export "memory") 17)
 (data (i32.const 512) "ok"))
`)
	})
	return c19ScriptOnce.wasm
}

func scriptCalldata(q c19Req, nds int) []byte {
	var b bytes.Buffer
	for _, r := range q.Raws {
		_ = binary.Write(&b, binary.LittleEndian, int64(r.EID))
		_ = binary.Write(&b, binary.LittleEndian, int64(1+mod(r.DS, nds)))
		_ = binary.Write(&b, binary.LittleEndian, int64(len(r.Calldata)))
		b.Write(r.Calldata)
	}
	return b.Bytes()
}

func mod(a, n int) int {
	if n <= 0 {
		return 0
	}
	a %= n
	if a < 0 {
		a += n
	}
	return a
}

// keyrings: built once per process (deterministic mnemonic), one with a single reporter key, one with three.
var c19Keys struct {
	sync.Once
	kb  map[int]keyring.Keyring
	err error
}

const c19Mnemonic = "abandon abandon abandon abandon abandon abandon abandon abandon abandon abandon abandon about"

func keyringFor(n int) (keyring.Keyring, error) {
	c19Keys.Do(func() {
		reg := codectypes.NewInterfaceRegistry()
		cryptocodec.RegisterInterfaces(reg)
		cdc := codec.NewProtoCodec(reg)
		c19Keys.kb = map[int]keyring.Keyring{}
		for _, k := range []int{1, 3} {
			kb := keyring.NewInMemory(cdc)
			for i := 0; i < k; i++ {
				if _, err := kb.NewAccount(fmt.Sprintf("reporter%d", i), c19Mnemonic, "", hd.CreateHDPath(494, 0, uint32(i)).String(), hd.Secp256k1); err != nil {
					c19Keys.err = err
					return
				}
			}
			c19Keys.kb[k] = kb
		}
	})
	if c19Keys.err != nil {
		return nil, c19Keys.err
	}
	if n != 3 {
		n = 1
	}
	return c19Keys.kb[n], nil
}

// ---- stubs -------------------------------------------------------------------------------------------

// rpcStub implements only what the daemon's request handling calls: ABCIQuery. Every other method of the
// embedded (nil) interface is unreachable from handleRequest/handleTransaction.
type rpcStub struct {
	rpcclient.Client
	app      *band.BandApp
	inflight *int64
	yield    bool
	permFail map[string]bool // file hash -> Query/Data always fails

	mu         sync.Mutex
	storeLeft  int
	dataLeft   int
	storeFails int
	dataFails  int
	permFails  int
	storeOK    int
	dataOK     int
	other      int
	bad        string
}

const dataPath = "/band.oracle.v1.Query/Data"

func (s *rpcStub) ABCIQuery(_ context.Context, path string, data cmtbytes.HexBytes) (res *ctypes.ResultABCIQuery, err error) {
	atomic.AddInt64(s.inflight, 1)
	defer atomic.AddInt64(s.inflight, -1)
	defer func() {
		if r := recover(); r != nil { // the node side must never take the daemon down
			s.mu.Lock()
			s.bad = fmt.Sprintf("app.Query panicked: %v", r)
			s.mu.Unlock()
			res, err = nil, errors.New("stub: internal error")
		}
	}()
	if s.yield {
		runtime.Gosched()
	}
	s.mu.Lock()
	switch {
	case strings.HasPrefix(path, "/store/"):
		if s.storeLeft > 0 {
			s.storeLeft--
			s.storeFails++
			s.mu.Unlock()
			return nil, errors.New("stub: injected store query failure")
		}
		s.storeOK++
	case path == dataPath:
		var q oracletypes.QueryDataRequest
		if uerr := q.Unmarshal(data); uerr != nil {
			s.bad = "undecodable QueryDataRequest"
		}
		if s.permFail[q.DataHash] {
			s.permFails++
			s.mu.Unlock()
			return nil, errors.New("stub: file cannot be fetched")
		}
		if s.dataLeft > 0 {
			s.dataLeft--
			s.dataFails++
			s.mu.Unlock()
			return nil, errors.New("stub: injected data query failure")
		}
		s.dataOK++
	default:
		s.other++
	}
	s.mu.Unlock()
	r, qerr := s.app.Query(context.Background(), &abci.RequestQuery{Path: path, Data: data})
	if qerr != nil {
		return nil, qerr
	}
	return &ctypes.ResultABCIQuery{Response: *r}, nil
}

type execKey struct{ rid, eid uint64 }

type execStub struct {
	inflight *int64
	outcomes map[execKey]c19Raw
	dsOf     map[execKey]uint64
	execs    map[uint64][]byte // data source id -> executable

	mu          sync.Mutex
	calls       map[execKey]int
	errServed   int
	wrongExec   int
	wrongArg    int
	unknownCall int
}

func envStr(env interface{}, k string) string {
	m, ok := env.(map[string]interface{})
	if !ok {
		return ""
	}
	s, _ := m[k].(string)
	return s
}

func (e *execStub) Exec(code []byte, arg string, env interface{}) (executor.ExecResult, error) {
	atomic.AddInt64(e.inflight, 1)
	defer atomic.AddInt64(e.inflight, -1)
	rid, _ := strconv.ParseUint(envStr(env, "BAND_REQUEST_ID"), 10, 64)
	eid, _ := strconv.ParseUint(envStr(env, "BAND_EXTERNAL_ID"), 10, 64)
	k := execKey{rid, eid}
	e.mu.Lock()
	raw, ok := e.outcomes[k]
	if !ok {
		e.unknownCall++
		e.mu.Unlock()
		return executor.ExecResult{}, errors.New("stub: unknown raw request")
	}
	e.calls[k]++
	if !bytes.Equal(code, e.execs[e.dsOf[k]]) {
		e.wrongExec++
	}
	if arg != string(raw.Calldata) {
		e.wrongArg++
	}
	if raw.Kind == "err" {
		e.errServed++
	}
	e.mu.Unlock()
	if raw.DelayUs > 0 {
		time.Sleep(time.Duration(raw.DelayUs) * time.Microsecond)
	}
	if raw.Kind == "err" {
		return executor.ExecResult{}, errors.New("stub: executor failed")
	}
	return executor.ExecResult{Output: outBytes(raw), Code: raw.Code, Version: "stub:1"}, nil
}

// ---- crash journal -----------------------------------------------------------------------------------

func journalPath() string {
	d := os.Getenv("VERIF_REPLAY_OUT")
	if d == "" {
		d = "/verif/replays"
	}
	shard := os.Getenv("VERIF_SHARD")
	if shard == "" {
		shard = "0"
	}
	return filepath.Join(d, "C19", "journal-"+shard+".json")
}

// journal writes the case before it is executed: a panic inside a daemon goroutine kills the whole process, and
// the file that is left behind is the crashing case (same wrapper format as pbt's replay files).
var journalSeq int64

func journal(c c19Case) string {
	p := journalPath()
	seq := atomic.AddInt64(&journalSeq, 1)
	cj, err := json.Marshal(c)
	if err != nil {
		return ""
	}
	wrap := map[string]any{
		"property":  "C19",
		"test":      "TestC19",
		"signature": sigCrash,
		"violation": "the yoda daemon process died (panic in a daemon goroutine) while handling this case",
		"case":      json.RawMessage(cj),
		"case_seq":  seq, // how many cases this worker had started (including this one)
	}
	b, _ := json.MarshalIndent(wrap, "", " ")
	_ = os.MkdirAll(filepath.Dir(p), 0o755)
	if os.WriteFile(p, b, 0o644) != nil {
		return ""
	}
	return p
}

// ---- run ---------------------------------------------------------------------------------------------

type reqModel struct {
	id       uint64
	q        c19Req
	selected bool
}

const quiesceGuard = 20 * time.Second

func runC19(c c19Case) *pbt.Verdict {
	v := &pbt.Verdict{}
	if os.Getenv("VERIF_C19_NOJOURNAL") == "" {
		if jp := journal(c); jp != "" {
			defer os.Remove(jp)
		}
	}
	// sanitise (a hand-edited replay must not be able to panic the harness)
	if c.NVals < 1 || c.NVals > 8 || len(c.Active) != c.NVals || len(c.DSs) == 0 || len(c.DSs) > 16 || len(c.Txs) > 8 {
		v.Class("malformed-case")
		return v
	}
	if c.MaxTry < 1 {
		c.MaxTry = 1
	}
	if c.MaxTry > 5 {
		c.MaxTry = 5
	}
	nds := len(c.DSs)
	me := mod(c.Me, c.NVals)
	if c.ExclShort > 0 {
		v.Count("excluded_known", int64(c.ExclShort))
	}

	// -- chain ------------------------------------------------------------------------------------------
	vals := make([]sim.ValSpec, c.NVals)
	for i := range vals {
		vals[i] = sim.ValSpec{Tokens: int64(10+i) * 1_000_000}
	}
	var dss []sim.DSSpec
	execs := map[uint64][]byte{}
	hashOf := map[uint64]string{}
	cachedHash, permHash := map[string]bool{}, map[string]bool{}
	for i, d := range c.DSs {
		b := execBytes(d)
		dss = append(dss, sim.DSSpec{Exec: b, Treasury: 0})
		execs[uint64(i+1)] = b
		h := filecache.GetFilename(b)
		hashOf[uint64(i+1)] = h
		if d.Cached {
			cachedHash[h] = true
		}
		if d.PermFail {
			permHash[h] = true
		}
	}
	op := oracletypes.DefaultParams()
	op.MaxCalldataSize = 1024
	ch, err := sim.New(sim.Config{NumAccounts: 1, Validators: vals, Oracle: &op, DataSources: dss, Scripts: [][]byte{c19Script()}}, 0)
	if err != nil {
		v.Failf("harness", "sim.New: %v", err)
		return v
	}
	defer ch.Close()
	var txs [][]byte
	for i, a := range c.Active {
		if a {
			txs = append(txs, ch.SignTx(ch.Vals[i], oracletypes.NewMsgActivate(ch.Vals[i].Val)))
		}
	}
	if _, err := ch.Block(txs, time.Second); err != nil {
		v.Failf("harness", "activation block failed: %v", err)
		return v
	}
	// the data sources are the chain's: what the node serves for a file must be what was registered
	for id, b := range execs {
		ds, derr := ch.App.OracleKeeper.GetDataSource(ch.Ctx(), oracletypes.DataSourceID(id))
		if derr != nil || ds.Filename != hashOf[id] || len(b) == 0 {
			v.Failf("harness", "data source %d not registered as expected: %v", id, derr)
			return v
		}
	}

	// -- requests ---------------------------------------------------------------------------------------
	txs = nil
	for _, t := range c.Txs {
		var msgs []sdk.Msg
		for qi, q := range t.Reqs {
			ask := q.Ask
			if t.Bad && qi == len(t.Reqs)-1 {
				ask = c.NVals + 1
			}
			min := q.Min
			if min < 1 {
				min = 1
			}
			if min > ask {
				min = ask
			}
			msgs = append(msgs, oracletypes.NewMsgRequestData(1, scriptCalldata(q, nds), uint64(ask), uint64(min), q.Client,
				sdk.NewCoins(sdk.NewInt64Coin("uband", 1_000_000)), 1_000_000, 1_000_000, ch.Users[0].Addr, oracletypes.ENCODER_UNSPECIFIED))
		}
		if len(msgs) == 0 {
			continue
		}
		txs = append(txs, ch.SignTx(ch.Users[0], msgs...))
	}
	res, err := ch.Block(txs, 3*time.Second)
	if err != nil {
		v.Failf("harness", "request block failed: %v", err)
		return v
	}
	myVal := ch.Vals[me].Val
	var models []*reqModel
	byID := map[uint64]*reqModel{}
	var txResults []abci.TxResult
	ti, failedTx := 0, false
	for _, t := range c.Txs {
		if len(t.Reqs) == 0 {
			continue
		}
		if ti >= len(res.Resp.TxResults) {
			break
		}
		tr := res.Resp.TxResults[ti]
		txResults = append(txResults, abci.TxResult{Height: res.Height, Index: uint32(ti), Tx: txs[ti], Result: *tr})
		ti++
		if tr.Code != 0 {
			if !t.Bad {
				v.Failf("harness", "request tx rejected by the chain: code %d log %q", tr.Code, tr.Log)
				return v
			}
			failedTx = true
			continue
		}
		var reqEvs, rawEvs []abci.Event
		for _, e := range tr.Events {
			switch e.Type {
			case oracletypes.EventTypeRequest:
				reqEvs = append(reqEvs, e)
			case oracletypes.EventTypeRawRequest:
				rawEvs = append(rawEvs, e)
			}
		}
		if len(reqEvs) != len(t.Reqs) {
			v.Failf("harness", "tx has %d request events for %d request messages", len(reqEvs), len(t.Reqs))
			return v
		}
		rawPos := 0
		for qi, q := range t.Reqs {
			id, perr := strconv.ParseUint(sim.Attr(reqEvs[qi], oracletypes.AttributeKeyID), 10, 64)
			if perr != nil || byID[id] != nil {
				v.Failf("harness", "bad request id in event: %q", sim.Attr(reqEvs[qi], oracletypes.AttributeKeyID))
				return v
			}
			m := &reqModel{id: id, q: q}
			for _, val := range sim.Attrs(reqEvs[qi], oracletypes.AttributeKeyValidator) {
				if val == myVal.String() {
					m.selected = true
				}
			}
			// the chain's raw requests must be the ones this case describes (external id, data source, calldata)
			for _, r := range q.Raws {
				if rawPos >= len(rawEvs) {
					v.Failf("harness", "request %d: missing raw_request event", id)
					return v
				}
				e := rawEvs[rawPos]
				rawPos++
				if sim.Attr(e, oracletypes.AttributeKeyExternalID) != fmt.Sprint(r.EID) ||
					sim.Attr(e, oracletypes.AttributeKeyDataSourceID) != fmt.Sprint(1+mod(r.DS, nds)) ||
					sim.Attr(e, oracletypes.AttributeKeyDataSourceHash) != hashOf[uint64(1+mod(r.DS, nds))] ||
					sim.Attr(e, oracletypes.AttributeKeyCalldata) != string(r.Calldata) {
					v.Failf("harness", "request %d: raw_request event %v does not match the case (eid %d ds %d)", id, e, r.EID, 1+mod(r.DS, nds))
					return v
				}
			}
			models = append(models, m)
			byID[id] = m
		}
	}

	// -- daemon -----------------------------------------------------------------------------------------
	cacheDir, err := os.MkdirTemp("", "verif-c19-cache-")
	if err != nil {
		v.Failf("harness", "temp dir: %v", err)
		return v
	}
	defer os.RemoveAll(cacheDir)
	pre := filecache.New(cacheDir)
	for id, b := range execs {
		if cachedHash[hashOf[id]] {
			pre.AddFile(b)
		}
	}
	var inflight int64
	rpc := &rpcStub{app: ch.App, inflight: &inflight, yield: c.Yield, permFail: permHash, storeLeft: c.StoreFail, dataLeft: c.DataFail}
	ex := &execStub{inflight: &inflight, outcomes: map[execKey]c19Raw{}, dsOf: map[execKey]uint64{}, execs: execs, calls: map[execKey]int{}}
	for _, m := range models {
		for _, r := range m.q.Raws {
			ex.outcomes[execKey{m.id, r.EID}] = r
			ex.dsOf[execKey{m.id, r.EID}] = uint64(1 + mod(r.DS, nds))
		}
	}
	kb, err := keyringFor(c.NKeys)
	if err != nil {
		v.Failf("harness", "keyring: %v", err)
		return v
	}
	yc, err := yoda.VerifNewContext(ch.App, rpc, myVal, ex, kb, ch.Cfg.ChainID, cacheDir, uint64(c.MaxTry), 50*time.Microsecond, 256)
	if err != nil {
		v.Failf("harness", "VerifNewContext: %v", err)
		return v
	}
	yl := yoda.VerifLogger(log.NewNopLogger())

	if c.Procs > 0 && c.Procs <= 64 {
		old := runtime.GOMAXPROCS(c.Procs)
		defer runtime.GOMAXPROCS(old)
	}

	ids := make([]uint64, 0, len(models)+1)
	for _, m := range models {
		ids = append(ids, m.id)
	}
	if c.Ghost {
		ids = append(ids, uint64(len(models))+7) // no such request on the chain
	}
	if n := len(ids); n > 0 {
		r := mod(c.Rot, n)
		ids = append(append([]uint64{}, ids[r:]...), ids[:r]...)
		if c.Rev {
			for i, j := 0, n-1; i < j; i, j = i+1, j-1 {
				ids[i], ids[j] = ids[j], ids[i]
			}
		}
	}
	order := make([]int, len(txResults))
	for i := range order {
		order[i] = i
	}
	if n := len(order); n > 0 {
		r := mod(c.Rot, n)
		order = append(append([]int{}, order[r:]...), order[:r]...)
	}

	// baseline goroutine count: sampled until it is stable, so that a goroutine of the previous case (or of the
	// app) that is just exiting cannot be mistaken for daemon work later
	baseline := runtime.NumGoroutine()
	for same, tries := 0, 0; same < 3 && tries < 200; tries++ {
		time.Sleep(50 * time.Microsecond)
		if n := runtime.NumGoroutine(); n == baseline {
			same++
		} else {
			baseline, same = n, 0
		}
	}
	handled := map[uint64]bool{}
	for _, m := range models {
		handled[m.id] = true
	}
	// The entry points run in a goroutine of their own so that a daemon call that never returns makes the case
	// inconclusive instead of hanging the harness.
	var launched int32
	go func() {
		defer atomic.StoreInt32(&launched, 1)
		switch c.Mode {
		case "direct":
			for _, id := range ids {
				yoda.VerifHandleRequest(yc, yl, oracletypes.RequestID(id))
			}
		case "direct-go": // as runImpl does for the requests pending at start-up
			for _, id := range ids {
				go yoda.VerifHandleRequest(yc, yl, oracletypes.RequestID(id))
			}
		case "tx-go": // as runImpl does for every incoming transaction event
			for _, i := range order {
				go yoda.VerifHandleTransaction(yc, yl, txResults[i])
			}
		default:
			for _, i := range order {
				yoda.VerifHandleTransaction(yc, yl, txResults[i])
			}
		}
	}()
	v.Class("mode:" + c.Mode)

	// quiescence: all entry points returned, no stub call in flight and the goroutine count back at (or below)
	// the baseline, seen twice
	quiet := false
	deadline := time.Now().Add(quiesceGuard)
	sleep := 20 * time.Microsecond
	for streak := 0; ; {
		if atomic.LoadInt32(&launched) == 1 && atomic.LoadInt64(&inflight) == 0 && runtime.NumGoroutine() <= baseline {
			streak++
			if streak >= 2 {
				quiet = true
				break
			}
			runtime.Gosched()
			continue
		}
		streak = 0
		if time.Now().After(deadline) {
			break
		}
		time.Sleep(sleep)
		if sleep < 2*time.Millisecond {
			sleep *= 2
		}
	}
	if !quiet {
		v.Class("inconclusive")
		return v
	}
	msgs := yoda.VerifDrain(yc)

	// -- oracle -----------------------------------------------------------------------------------------
	rpc.mu.Lock()
	storeFails, dataFails, permFails, dataOK, rpcBad := rpc.storeFails, rpc.dataFails, rpc.permFails, rpc.dataOK, rpc.bad
	rpc.mu.Unlock()
	ex.mu.Lock()
	calls := ex.calls
	errServed, wrongExec, wrongArg, unknownCall := ex.errServed, ex.wrongExec, ex.wrongArg, ex.unknownCall
	ex.mu.Unlock()
	if rpcBad != "" {
		v.Failf("harness", "rpc stub: %s", rpcBad)
		return v
	}
	if unknownCall > 0 {
		v.Failf("C19/unknown-exec", "the daemon ran the executor %d time(s) for a (request id, external id) that no request has", unknownCall)
	}
	// A store query that fails max-try times in a row makes GetRequest/GetDataSourceHash give up; the daemon then
	// returns without a report. The statement's 255 rule is about the executable, so in that region the check
	// does not demand a report (drops are counted) but still demands that whatever is queued is right.
	storeExhausted := c.StoreFail >= c.MaxTry
	// Query/Data failures beyond the retry budget may turn up to DataFail/MaxTry raw requests into load failures,
	// which ones depends on the interleaving.
	loadBudget := c.DataFail / c.MaxTry

	got := map[uint64][]*oracletypes.MsgReportData{}
	for _, m := range msgs {
		if m == nil {
			v.Failf("C19/nil-report", "nil message queued")
			continue
		}
		got[uint64(m.RequestID)] = append(got[uint64(m.RequestID)], m)
	}
	gotIDs := make([]uint64, 0, len(got))
	for id := range got {
		gotIDs = append(gotIDs, id)
	}
	sort.Slice(gotIDs, func(i, j int) bool { return gotIDs[i] < gotIDs[j] })
	for _, id := range gotIDs {
		m := byID[id]
		switch {
		case m == nil:
			v.Failf("C19/unknown-request", "report queued for request %d which does not exist", id)
		case !m.selected:
			v.Failf("C19/unselected-report", "report queued for request %d which does not select validator %s", id, myVal)
		case len(got[id]) > 1:
			v.Failf("C19/duplicate", "%d reports queued for request %d", len(got[id]), id)
		}
	}
	selectedN, maxRaws, dropsExhausted, loadFailures := 0, 0, 0, 0
	ctx := ch.Ctx()
	for _, m := range models {
		if !m.selected || !handled[m.id] {
			continue
		}
		selectedN++
		reps := got[m.id]
		if len(reps) == 0 {
			if storeExhausted {
				dropsExhausted++
				continue
			}
			v.Failf("C19/dropped", "request %d selects %s but no report was queued (%d raw requests, mode %s)", m.id, myVal, len(m.q.Raws), c.Mode)
			continue
		}
		if len(m.q.Raws) > maxRaws {
			maxRaws = len(m.q.Raws)
		}
		rep := reps[0]
		if rep.Validator != myVal.String() {
			v.Failf("C19/wrong-validator", "request %d: report names validator %s, daemon works for %s", m.id, rep.Validator, myVal)
		}
		byEID := map[uint64][]oracletypes.RawReport{}
		for _, rr := range rep.RawReports {
			byEID[uint64(rr.ExternalID)] = append(byEID[uint64(rr.ExternalID)], rr)
		}
		if len(rep.RawReports) != len(m.q.Raws) {
			v.Failf("C19/raw-reports", "request %d: %d raw reports for %d raw requests", m.id, len(rep.RawReports), len(m.q.Raws))
		}
		for _, r := range m.q.Raws {
			rrs := byEID[r.EID]
			if len(rrs) != 1 {
				v.Failf("C19/raw-reports", "request %d: %d raw reports for external id %d, want exactly 1", m.id, len(rrs), r.EID)
				continue
			}
			rr := rrs[0]
			h := hashOf[uint64(1+mod(r.DS, nds))]
			n := calls[execKey{m.id, r.EID}]
			if n > 1 {
				v.Count("exec_called_twice", 1)
			}
			if n >= 1 {
				// the executor ran: the report carries its exit code and output, or 255 if it returned an error
				if r.Kind == "err" {
					if rr.ExitCode != 255 {
						v.Failf("C19/outcome", "request %d eid %d: executor returned an error but exit code is %d, want 255", m.id, r.EID, rr.ExitCode)
					}
				} else if rr.ExitCode != r.Code || !bytes.Equal(rr.Data, outBytes(r)) {
					v.Failf("C19/outcome", "request %d eid %d: report (exit %d, %d bytes) differs from the executor's result (exit %d, %d bytes)",
						m.id, r.EID, rr.ExitCode, len(rr.Data), r.Code, r.OutLen)
				}
				if permHash[h] && !cachedHash[h] {
					v.Failf("harness", "request %d eid %d: executor ran although the file can never be fetched", m.id, r.EID)
				}
				continue
			}
			// the executor did not run for this raw request: only a load failure explains that
			if rr.ExitCode != 255 {
				v.Failf("C19/outcome", "request %d eid %d: the data source was not run but exit code is %d, want 255", m.id, r.EID, rr.ExitCode)
			}
			switch {
			case cachedHash[h]:
				v.Failf("C19/outcome", "request %d eid %d: executable is in the file cache but was not run", m.id, r.EID)
			case permHash[h]:
				loadFailures++
			case loadBudget > 0:
				loadBudget--
				loadFailures++
			default:
				v.Failf("C19/outcome", "request %d eid %d: executable was fetchable (injected Data failures %d, max try %d) but was not run", m.id, r.EID, c.DataFail, c.MaxTry)
			}
			if !bytes.Equal(rr.Data, []byte("FAIL_TO_LOAD_DATA_SOURCE")) {
				v.Count("load_failure_other_data", 1)
			}
		}
		if err := rep.ValidateBasic(); err != nil {
			v.Failf("C19/validate-basic", "request %d: report fails ValidateBasic: %v", m.id, err)
		}
		val, aerr := sdk.ValAddressFromBech32(rep.Validator)
		if aerr != nil {
			v.Failf("C19/validate-basic", "request %d: bad validator address %q", m.id, rep.Validator)
		} else if err := ch.App.OracleKeeper.CheckValidReport(ctx, rep.RequestID, val, rep.RawReports); err != nil {
			v.Failf("C19/chain-reject", "request %d: chain's CheckValidReport rejects the report: %v", m.id, err)
		}
	}

	// A violation must not be an artefact of evaluating too early: if anything is still moving a moment later
	// (a late report, a stub call), quiescence had not been reached and the case is inconclusive instead.
	if v.Violation != "" {
		time.Sleep(300 * time.Millisecond)
		if late := yoda.VerifDrain(yc); len(late) > 0 || atomic.LoadInt64(&inflight) != 0 || runtime.NumGoroutine() > baseline {
			iv := &pbt.Verdict{}
			iv.Class("inconclusive")
			iv.Count("late_activity_after_quiescence", 1)
			return iv
		}
	}

	// -- statistics -------------------------------------------------------------------------------------
	injected := storeFails + dataFails + permFails + errServed
	v.NonTrivial = maxRaws >= 2 && injected >= 1
	v.Count("requests", int64(len(models)))
	v.Count("selected_requests", int64(selectedN))
	v.Count("reports", int64(len(msgs)))
	v.Count("rpc_failures_served", int64(storeFails+dataFails+permFails))
	v.Count("executor_errors_served", int64(errServed))
	v.Count("rpc_exhausted_drops", int64(dropsExhausted))
	v.Count("exec_wrong_executable", int64(wrongExec))
	v.Count("exec_wrong_calldata", int64(wrongArg))
	switch {
	case len(models) == 0:
		v.Class("no-request")
	case selectedN == 0:
		v.Class("not-selected")
	case selectedN < len(models):
		v.Class("selected-some")
	default:
		v.Class("selected-all")
	}
	if failedTx {
		v.Class("failed-tx")
	}
	if storeExhausted {
		v.Class("store-exhausted")
	}
	if storeFails+dataFails > 0 {
		v.Class("transient-rpc-failure")
	}
	if permFails > 0 {
		v.Class("perm-fetch-failure")
	}
	if errServed > 0 {
		v.Class("executor-error")
	}
	if loadFailures > 0 {
		v.Class("load-failure")
	}
	v.Count("load_failure_reports", int64(loadFailures))
	if dataOK > 0 {
		v.Class("cache-miss-fetched")
	}
	short, hit := false, false
	for _, m := range models {
		if !m.selected {
			continue
		}
		for _, r := range m.q.Raws {
			d := c.DSs[mod(r.DS, nds)]
			if d.Len < 32 {
				short = true
			}
			if cachedHash[hashOf[uint64(1+mod(r.DS, nds))]] {
				hit = true
			}
		}
	}
	if short {
		v.Class("short-executable")
	}
	if hit {
		v.Class("cache-hit")
	}
	if maxRaws >= 2 {
		v.Class("multi-raw")
	}
	if len(txResults) > 1 && strings.HasPrefix(c.Mode, "tx") {
		v.Class("several-txs")
	}
	return v
}

func TestC19(t *testing.T) { pbt.Check(t, "C19", genC19, runC19) }
