// Package c19 checks property C19: "Yoda files exactly one complete, chain-acceptable report per request".
//
// The daemon code under test is yoda/handler.go (handleTransaction / handleRequest / handleRawRequests /
// handleRawRequest) and yoda/execute.go (GetRequest / GetDataSourceHash / GetExecutable / abciQuery), reached
// through the add-only hook /repo/yoda/export_verif.go. Requests, data sources and the selected validator sets
// are produced by the real chain (sim), the RPC stub answers the daemon's ABCI queries from that chain's app,
// the executor is a stub whose outcome per (request id, external id) is part of the generated case.
//
// One case is a sequence of ROUNDS handled by the SAME daemon Context and the same file cache directory (the daemon
// is a long-lived process): round 1 is described by the top-level fields of the case, later rounds by Rounds. Before
// the requests of a later round (Edits) and between the requests and their handling (LateEdits, any round) the owner
// of the data sources edits them with real MsgEditDataSource transactions: new executable bytes (new hash), the same
// bytes, [do-not-modify], fee/treasury only, or an edit by a non-owner (refused by the chain). Every oracle is
// evaluated after every round; in addition the executable the executor is handed must be the data source's
// executable on the chain (at request time = the hash in the raw_request event, or at handling time).
//
// A round in mode "restart" models the start-up of the daemon (yoda/run.go runImpl): the round's requests are made on
// the chain, a generated subset of the OTHER selected validators (and sometimes the daemon's validator itself, "in an
// earlier life") deliver reports first, so that requests are below / at / above min_count, resolved, or fully reported
// except for the daemon's validator; some blocks pass (in the last round possibly enough to expire requests); only then
// a fresh Context asks the node "/band.oracle.v1.Query/PendingRequests" through the RPC stub and runs `go
// handleRequest` for every returned id, exactly as runImpl does (the hook file has no accessor for runImpl, so those
// ten lines are repeated in the harness; handleTransaction never sees these requests). Owed = every request of the
// case that is not expired, selects the validator and has no report of it on the chain: exactly one report each, none
// for any other request.
//
// LateParams: between the requests of a round and their handling / delivery, governance (a real proposal, sim.GovExec)
// may change the oracle params: MaxRawRequestCount (in the last round also below the number of raw requests of a
// request that is still open), MaxReportDataSize, MaxCalldataSize. A report that mirrors its open request must still
// pass the chain's validation; only data longer than the MaxReportDataSize in force at delivery is a legitimate
// refusal (as before). MaxRawRequestCount is lowered in the last round only, because later requests made by this
// harness would otherwise be refused for asking too much.
//
// CacheOps damage the daemon's on-disk executable cache (<cache dir>/<sha256>) before a round: the file of a data
// source's current executable is truncated, overwritten with other bytes of the same length, emptied (what a crash in
// the middle of diskv's in-place write leaves behind) or deleted. The file cache verifies content against name, so the
// daemon has to fall back to the node exactly as for a missing file: the raw report still carries the result of
// running the on-chain executable (or 255 only if the node cannot serve the file either). A long-lived daemon may still
// hold the content in memory; a restart round reads the disk.
//
// Executor mode "rest" (Exec = "rest") puts the REAL executor of yoda/executor in place of the stub:
// executor.NewExecutor("rest:http://127.0.0.1:<port>/?timeout=...") talks to an HTTP server inside the test process
// that plays the remote executor endpoint from the generated case: per (BAND_REQUEST_ID, BAND_EXTERNAL_ID) of the
// posted env a 200 with {returncode, stdout, stderr, version}, a non-2XX status with a body of generated length
// (error pages longer than MaxReportDataSize included), a body that is not JSON, a connection closed without an
// answer, or no answer at all until the client gives up. Contract read from rest.go/handler.go: returncode 0 ->
// stdout, otherwise stderr with that code; client timeout -> exit code 111 with empty data; any other failure -> 255
// with empty data. A time-out is produced only by the server's "never answers" behaviour; should a normal answer
// take longer than the (generous) client timeout on an overloaded machine, the wrapper's clock shows it and the case
// is inconclusive instead of a violation.
//
// "Passes the chain's report validation" is decided by the chain itself: at the end of every round each report the
// daemon queued is signed by the validator's account and DELIVERED in the next block of the chain the request came
// from (real ante handler + real MsgReportData handler). The request is open (made one or two blocks earlier, far
// from ExpirationBlockCount), selects the validator and has no report of it yet, so the transaction must succeed,
// unless a raw report is longer than the chain's MaxReportDataSize. yoda never cuts an output itself; the shipped
// executor does (yoda/executor/docker.go reads at most the report-data limit from the output), so the executor stub
// cuts its output to ExecCut bytes the same way. ExecCut equals the chain's MaxReportDataSize (drawn per case from
// 16/64/512) in most cases, which puts outputs of exactly the limit into many reports; in a few cases the stub does
// not cut (ExecCut 0) and an over-long report is refused by the chain legitimately (counted, not asserted).
package c19

import (
	"bytes"
	"context"
	"encoding/base64"
	"encoding/binary"
	"encoding/json"
	"errors"
	"fmt"
	"net/http"
	"net/http/httptest"
	"os"
	"path/filepath"
	"runtime"
	"sort"
	"strconv"
	"strings"
	"sync"
	"sync/atomic"
	"testing"
	"time"

	"pgregory.net/rapid"

	abci "github.com/cometbft/cometbft/abci/types"
	cmtbytes "github.com/cometbft/cometbft/libs/bytes"
	rpcclient "github.com/cometbft/cometbft/rpc/client"
	ctypes "github.com/cometbft/cometbft/rpc/core/types"

	"cosmossdk.io/log"

	"github.com/cosmos/cosmos-sdk/codec"
	codectypes "github.com/cosmos/cosmos-sdk/codec/types"
	cryptocodec "github.com/cosmos/cosmos-sdk/crypto/codec"
	"github.com/cosmos/cosmos-sdk/crypto/hd"
	"github.com/cosmos/cosmos-sdk/crypto/keyring"
	sdk "github.com/cosmos/cosmos-sdk/types"

	band "github.com/bandprotocol/chain/v3/app"
	"github.com/bandprotocol/chain/v3/pkg/filecache"
	oracletypes "github.com/bandprotocol/chain/v3/x/oracle/types"
	"github.com/bandprotocol/chain/v3/yoda"
	"github.com/bandprotocol/chain/v3/yoda/executor"

	"verif/harness/gen"
	"verif/harness/pbt"
	"verif/harness/sim"
)

// ---- case --------------------------------------------------------------------------------------------

type c19DS struct {
	Len      int  `json:"len"`                // executable length in bytes
	Seed     int  `json:"seed"`               // content pattern (same len+seed => same file => same hash)
	Cached   bool `json:"cached,omitempty"`   // already present in the daemon's file cache
	PermFail bool `json:"permfail,omitempty"` // every Query/Data for this file fails (cannot be fetched)
}

type c19Raw struct {
	DS       int    `json:"ds"` // index into DSs (mod len)
	EID      uint64 `json:"eid"`
	Calldata []byte `json:"calldata"`
	Kind     string `json:"kind"` // ok | err   (executor outcome for this raw request)
	Code     uint32 `json:"code"`
	OutLen   int    `json:"outlen"`
	OutSeed  int    `json:"outseed"`
	DelayUs  int    `json:"delay_us,omitempty"`
	// executor mode "rest", Kind "err": how the endpoint fails
	Fail    string `json:"fail,omitempty"`     // status | badjson | hang | close
	Status  int    `json:"status,omitempty"`   // status: the non-2XX code
	BodyLen int    `json:"body_len,omitempty"` // status: length of the error page
}

type c19Req struct {
	Ask    int      `json:"ask"`
	Min    int      `json:"min"`
	Client string   `json:"client,omitempty"`
	Raws   []c19Raw `json:"raws"`
	// restart rounds only: how many of the OTHER selected validators report before the daemon starts
	// (-1 all, -2 min_count, -3 min_count-1, n>=0 that many; capped), which ones, and whether the daemon's own
	// validator has already reported in an earlier life
	Others    int  `json:"others,omitempty"`
	OthersRot int  `json:"others_rot,omitempty"`
	MeRep     bool `json:"me_rep,omitempty"`
}

type c19Tx struct {
	Reqs []c19Req `json:"reqs"`
	Bad  bool     `json:"bad,omitempty"` // last message asks for more validators than exist => whole tx fails on chain
}

// c19Edit is one MsgEditDataSource sent in a block of its own kind (one tx per edit).
type c19Edit struct {
	DS        int    `json:"ds"`   // index into DSs (mod len)
	Kind      string `json:"kind"` // exec (new bytes from Len/Seed) | same (the current bytes again) | nomod ([do-not-modify])
	Len       int    `json:"len,omitempty"`
	Seed      int    `json:"seed,omitempty"`
	Cached    bool   `json:"cached,omitempty"`     // (new hash only) the new file is already in the daemon's file cache
	PermFail  bool   `json:"permfail,omitempty"`   // (new hash only) the new file can never be fetched from the node
	Fee       int64  `json:"fee,omitempty"`        // new fee in uband
	Treasury  int    `json:"treasury,omitempty"`   // 0 = the owner, i>0 = operator of validator i-1 (mod)
	BadSender bool   `json:"bad_sender,omitempty"` // sent by an account that is not the owner: refused, nothing changes
}

// c19CacheOp damages (or removes) the cache file of the current executable of a data source.
type c19CacheOp struct {
	DS   int    `json:"ds"`
	Kind string `json:"kind"` // truncate | overwrite | empty | delete
}

// c19Params is a governance change of oracle params (zero = keep).
type c19Params struct {
	MaxRaw      int `json:"max_raw,omitempty"`      // MaxRawRequestCount
	MaxData     int `json:"max_data,omitempty"`     // MaxReportDataSize
	MaxCalldata int `json:"max_calldata,omitempty"` // MaxCalldataSize (>= 512: the requests of later rounds must stay possible)
}

// c19Round is one later round of the same daemon: chain-side edits, new requests, handling.
type c19Round struct {
	LateParams *c19Params   `json:"late_params,omitempty"` // after the requests (and LateEdits), before handling and delivery
	CacheOps   []c19CacheOp `json:"cache_ops,omitempty"`   // after Edits, before this round's requests
	Edits      []c19Edit    `json:"edits,omitempty"`       // block before this round's requests
	LateEdits  []c19Edit    `json:"late_edits,omitempty"`  // block after the requests, before the daemon handles them
	Txs        []c19Tx      `json:"txs"`
	Mode       string       `json:"mode"` // direct | direct-go | tx | tx-go | restart
	Rot        int          `json:"rot,omitempty"`
	Rev        bool         `json:"rev,omitempty"`
	Ghost      bool         `json:"ghost,omitempty"`
	Idle       int          `json:"idle,omitempty"`       // restart: empty blocks between the reports of the others and the start-up
	Expire     int          `json:"expire,omitempty"`     // restart, last round only: 1 = blocks pass until the requests of earlier rounds have expired, 2 = this round's too
	StoreFail  int          `json:"store_fail,omitempty"` // the first k /store queries of this round fail
	DataFail   int          `json:"data_fail,omitempty"`  // the first k Query/Data queries (of fetchable files) of this round fail
}

type c19Case struct {
	NVals      int          `json:"nvals"`
	Active     []bool       `json:"active"`
	Me         int          `json:"me"` // index of the validator the daemon works for
	DSs        []c19DS      `json:"dss"`
	Txs        []c19Tx      `json:"txs"`
	Mode       string       `json:"mode"` // direct | direct-go | tx | tx-go
	Rot        int          `json:"rot,omitempty"`
	Rev        bool         `json:"rev,omitempty"`
	Ghost      bool         `json:"ghost,omitempty"` // direct modes: also handle a request id that does not exist
	MaxTry     int          `json:"max_try"`
	StoreFail  int          `json:"store_fail,omitempty"`  // the first k /store queries fail
	DataFail   int          `json:"data_fail,omitempty"`   // the first k Query/Data queries (of fetchable files) fail
	Yield      bool         `json:"yield,omitempty"`       // RPC stub yields the processor on every call
	NKeys      int          `json:"nkeys"`                 // 1 or 3 reporter keys
	Procs      int          `json:"procs,omitempty"`       // GOMAXPROCS for this case (0 = leave)
	ExclShort  int          `json:"excl_short,omitempty"`  // number of short executables remapped because of the known finding
	LateParams *c19Params   `json:"late_params,omitempty"` // round 1: see c19Round
	CacheOps   []c19CacheOp `json:"cache_ops,omitempty"`   // round 1: before the requests
	Idle       int          `json:"idle,omitempty"`        // round 1, mode restart: see c19Round
	Expire     int          `json:"expire,omitempty"`      // round 1, mode restart: see c19Round
	ExpBlocks  int          `json:"exp_blocks,omitempty"`  // oracle param ExpirationBlockCount (0 = default 100)
	Exec       string       `json:"exec,omitempty"`        // "" = executor stub, "rest" = the real REST executor against an in-process endpoint
	MaxData    int          `json:"max_data,omitempty"`    // oracle param MaxReportDataSize of the chain (0 = default 512)
	ExecCut    int          `json:"exec_cut,omitempty"`    // the executor cuts its output to this many bytes (0 = it does not cut)
	// later rounds handled by the same daemon Context (round 1 = the fields above)
	LateEdits []c19Edit  `json:"late_edits,omitempty"` // round 1: edits between the requests and their handling
	Rounds    []c19Round `json:"rounds,omitempty"`
}

const sigCrash = "C19/daemon-crash"

func minExecLen() int {
	if s := os.Getenv("VERIF_C19_MINEXEC"); s != "" {
		if n, err := strconv.Atoi(s); err == nil && n >= 1 {
			return n
		}
	}
	if pbt.IsExcluded("C19", sigCrash) {
		return 32
	}
	return 1
}

func genExecLen(rt *rapid.T, minLen int, excl *int) int {
	var l int
	switch gen.Pick(rt, "lencat", 30, 12, 28, 20, 10) {
	case 0:
		l = gen.Range(rt, "short", 1, 31)
	case 1:
		l = gen.OneOf(rt, "bnd", 24, 25, 31, 32, 33)
	case 2:
		l = gen.Range(rt, "mid", 34, 300)
	case 3:
		l = gen.Range(rt, "big", 301, 4095)
	default:
		l = gen.OneOf(rt, "edge", 1, 4096, 4096, 512, 513)
	}
	if l < minLen {
		l = minLen + l // stays small, but outside the excluded region
		*excl++
	}
	return l
}

// genTxs draws the request transactions of one round. prefer (may be empty) lists data source indices the round
// should ask on purpose: the first raw request of the first request takes one of them and that request tends to ask
// every active validator, so that the daemon's validator is selected whenever it is active.
func genTxs(rt *rapid.T, nds, nActive, maxData int, prefer []int, used map[int]bool, restart, rest bool, hangLeft *int) []c19Tx {
	var out []c19Tx
	ntx := rapid.IntRange(1, 3).Draw(rt, "ntx")
	for t := 0; t < ntx; t++ {
		tx := c19Tx{Bad: gen.Chance(rt, "bad", 1, 15)}
		nreq := rapid.IntRange(1, 3).Draw(rt, "nreq")
		for r := 0; r < nreq; r++ {
			ask := gen.Range(rt, "ask", 1, nActive)
			target := t == 0 && r == 0 && len(prefer) > 0 && gen.Chance(rt, "target", 4, 5)
			if target {
				tx.Bad = false
				if gen.Chance(rt, "askall", 3, 4) {
					ask = nActive
				}
			}
			q := c19Req{Ask: ask, Min: gen.Range(rt, "min", 1, ask), Client: rapid.StringMatching(`[a-z]{0,4}`).Draw(rt, "client")}
			if restart {
				// start-up round: many validators asked, min_count below ask_count, the others report first
				if gen.Chance(rt, "rsaskall", 2, 3) {
					q.Ask = nActive
				}
				q.Min = gen.Range(rt, "rsmin", 1, q.Ask)
				if q.Ask > 1 && gen.Chance(rt, "rsminlow", 3, 4) {
					q.Min = gen.Range(rt, "rsminl", 1, q.Ask-1)
				}
				q.Others = gen.OneOf(rt, "others", -2, -2, -2, -2, -1, -1, -3, 0, 1)
				q.OthersRot = gen.Uniform(rt, "othersrot", 4)
				q.MeRep = gen.Chance(rt, "merep", 1, 8)
			}
			nraw := gen.OneOf(rt, "nraw", 1, 2, 2, 3, 3, 4, 5, 6)
			usedEID := map[uint64]bool{}
			prev := 0
			for j := 0; j < nraw; j++ {
				ds := gen.Uniform(rt, "ds", nds)
				if j > 0 && gen.Chance(rt, "repeat", 1, 3) {
					ds = prev
				}
				if target && j == 0 {
					ds = prefer[gen.Uniform(rt, "prefds", len(prefer))]
				}
				prev = ds
				used[ds] = true
				eid := uint64(gen.OneOf(rt, "eid", 1, 2, 3, 4, 5, 6, 7, 100, 255, 256, 65535, 1<<31-1))
				for usedEID[eid] {
					eid++
				}
				usedEID[eid] = true
				raw := c19Raw{DS: ds, EID: eid, Calldata: rapid.SliceOfN(rapid.Byte(), 0, 20).Draw(rt, "calldata")}
				switch gen.Pick(rt, "kind", 5, 3, 2) {
				case 0:
					raw.Kind, raw.Code = "ok", 0
				case 1:
					raw.Kind, raw.Code = "ok", gen.OneOf[uint32](rt, "code", 1, 2, 111, 126, 255, 256, 1<<32-1)
				default:
					raw.Kind = "err"
					if rest {
						switch gen.Pick(rt, "fail", 50, 15, 12, 23) {
						case 0:
							raw.Fail = "status"
						case 1:
							raw.Fail = "badjson"
						case 2:
							raw.Fail = "close"
						default:
							raw.Fail = "status"
							if *hangLeft > 0 && gen.Chance(rt, "hang", 1, 4) { // every hang costs one client timeout of wall time
								raw.Fail = "hang"
								*hangLeft--
							}
						}
						if raw.Fail == "status" {
							raw.Status = gen.OneOf(rt, "status", 400, 404, 500, 502, 502, 504)
							raw.BodyLen = gen.OneOf(rt, "bodylen", 0, 7, 100, maxData, maxData+1, maxData+300, 2000)
						}
					}
				}
				// output length: small ones, and the chain's report-data limit -1, +0, +1 and well above it
				raw.OutLen = gen.OneOf(rt, "outlen", 0, 0, 1, 8, 24, 100, maxData-1, maxData, maxData, maxData+1, maxData+88)
				raw.OutSeed = gen.Uniform(rt, "outseed", 250)
				raw.DelayUs = gen.OneOf(rt, "delay", 0, 0, 0, 20, 100, 400, 1500)
				q.Raws = append(q.Raws, raw)
			}
			tx.Reqs = append(tx.Reqs, q)
		}
		out = append(out, tx)
	}
	return out
}

func genFails(rt *rapid.T, maxTry int) (storeFail, dataFail int) {
	switch gen.Pick(rt, "storefail", 60, 32, 8) {
	case 1:
		if maxTry > 1 {
			storeFail = gen.Range(rt, "sf", 1, maxTry-1)
		}
	case 2:
		storeFail = gen.Range(rt, "sfx", maxTry, 2*maxTry)
	}
	switch gen.Pick(rt, "datafail", 50, 30, 20) {
	case 1:
		if maxTry > 1 {
			dataFail = gen.Range(rt, "df", 1, maxTry-1)
		}
	case 2:
		dataFail = gen.Range(rt, "dfx", maxTry, 3*maxTry)
	}
	return
}

// genEdit draws one data-source edit. usedList = data sources some earlier round asked (preferred target).
func genEdit(rt *rapid.T, nds, nvals, minLen int, usedList []int, excl *int) c19Edit {
	e := c19Edit{DS: gen.Uniform(rt, "eds", nds)}
	if len(usedList) > 0 && gen.Chance(rt, "eused", 3, 4) {
		e.DS = usedList[gen.Uniform(rt, "eusedi", len(usedList))]
	}
	switch gen.Pick(rt, "ekind", 70, 12, 18) {
	case 0:
		e.Kind = "exec"
		e.Len = genExecLen(rt, minLen, excl)
		e.Seed = gen.Range(rt, "eseed", 3, 8)
		if gen.Chance(rt, "eseedold", 1, 6) {
			e.Seed = gen.Uniform(rt, "eseedo", 3) // may re-create the bytes some data source had at genesis
		}
		e.Cached = gen.Chance(rt, "ecached", 1, 4)
		e.PermFail = gen.Chance(rt, "epermfail", 1, 8)
	case 1:
		e.Kind = "same"
	default:
		e.Kind = "nomod"
	}
	e.Fee = gen.OneOf[int64](rt, "efee", 0, 0, 0, 1, 1000)
	e.Treasury = gen.Uniform(rt, "etreasury", nvals+1)
	e.BadSender = gen.Chance(rt, "ebadsender", 1, 12)
	return e
}

func sortedKeys(m map[int]bool) []int {
	out := make([]int, 0, len(m))
	for k := range m {
		out = append(out, k)
	}
	sort.Ints(out)
	return out
}

// genLateParams draws a governance change of the oracle params that lands while the round's requests are open.
func genLateParams(rt *rapid.T, last bool, maxData int) *c19Params {
	p := &c19Params{}
	if last && gen.Chance(rt, "lpraw", 4, 5) {
		p.MaxRaw = gen.OneOf(rt, "lpmaxraw", 1, 1, 2, 2, 3, 3, 5, 6, 16) // open requests have 1..6 raw requests
	} else if gen.Chance(rt, "lprawhigh", 1, 2) {
		p.MaxRaw = gen.OneOf(rt, "lpmaxrawhigh", 6, 7, 32)
	}
	if gen.Chance(rt, "lpdata", 1, 3) {
		p.MaxData = gen.OneOf(rt, "lpmaxdata", 16, 64, 512, 1024, maxData-1, maxData+1)
	}
	if gen.Chance(rt, "lpcall", 1, 4) {
		p.MaxCalldata = gen.OneOf(rt, "lpmaxcall", 512, 2048)
	}
	return p
}

func genCacheOps(rt *rapid.T, nds int, usedList []int) []c19CacheOp {
	if !gen.Chance(rt, "cacheops", 1, 3) {
		return nil
	}
	var out []c19CacheOp
	for i, n := 0, gen.OneOf(rt, "ncacheops", 1, 1, 2, 3); i < n; i++ {
		op := c19CacheOp{DS: gen.Uniform(rt, "cods", nds), Kind: gen.OneOf(rt, "cokind", "truncate", "truncate", "overwrite", "overwrite", "empty", "delete")}
		if len(usedList) > 0 && gen.Chance(rt, "coused", 3, 4) {
			op.DS = usedList[gen.Uniform(rt, "cousedi", len(usedList))] // a file the daemon has probably fetched already
		}
		out = append(out, op)
	}
	return out
}

func genC19(rt *rapid.T) c19Case {
	minLen := minExecLen()
	c := c19Case{}
	c.NVals = rapid.IntRange(1, 4).Draw(rt, "nvals")
	nActive := 0
	for i := 0; i < c.NVals; i++ {
		a := i == 0 || gen.Chance(rt, "act", 8, 10)
		c.Active = append(c.Active, a)
		if a {
			nActive++
		}
	}
	c.Me = gen.Uniform(rt, "me", c.NVals)
	nds := rapid.IntRange(1, 4).Draw(rt, "nds")
	for i := 0; i < nds; i++ {
		l := genExecLen(rt, minLen, &c.ExclShort)
		c.DSs = append(c.DSs, c19DS{Len: l, Seed: gen.Uniform(rt, "seed", 3),
			Cached: gen.Chance(rt, "cached", 1, 3), PermFail: gen.Chance(rt, "permfail", 1, 6)})
	}
	c.Mode = gen.OneOf(rt, "mode", "direct", "direct", "direct-go", "tx", "tx", "tx-go", "restart", "restart")
	used := map[int]bool{}
	// how many rounds the same daemon lives through
	nRounds := 1 + gen.Pick(rt, "nrounds", 45, 42, 13)
	var prefer1 []int
	if nRounds > 1 && gen.Chance(rt, "plan", 2, 3) {
		// planned history: round 1 asks a data source on purpose, so that a later edit of it is an edit of something
		// the daemon has already looked up
		prefer1 = []int{gen.Uniform(rt, "planned", nds)}
	}
	c.MaxData = gen.OneOf(rt, "maxdata", 512, 512, 64, 16)
	c.ExecCut = c.MaxData
	if gen.Chance(rt, "nocut", 1, 10) {
		c.ExecCut = 0
	}
	if gen.Chance(rt, "rest", 3, 10) {
		c.Exec = "rest"
	}
	hangLeft := 2
	c.CacheOps = genCacheOps(rt, nds, nil)
	c.Txs = genTxs(rt, nds, nActive, c.MaxData, prefer1, used, c.Mode == "restart", c.Exec == "rest", &hangLeft)
	if c.Mode == "restart" {
		c.Idle = gen.OneOf(rt, "idle", 0, 0, 1, 3)
		if nRounds == 1 {
			c.Expire = gen.OneOf(rt, "expire", 0, 0, 0, 0, 0, 0, 0, 0, 0, 0, 2)
		}
	}
	c.Rot = gen.Uniform(rt, "rot", 4)
	c.Rev = gen.Chance(rt, "rev", 1, 3)
	c.Ghost = gen.Chance(rt, "ghost", 1, 10)
	c.MaxTry = gen.Range(rt, "maxtry", 1, 3)
	c.StoreFail, c.DataFail = genFails(rt, c.MaxTry)
	c.Yield = gen.Chance(rt, "yield", 1, 2)
	c.NKeys = gen.OneOf(rt, "nkeys", 1, 3)
	c.Procs = gen.OneOf(rt, "procs", 0, 0, 1, 2, 4, 16)
	if gen.Chance(rt, "late1", 1, 10) {
		c.LateEdits = append(c.LateEdits, genEdit(rt, nds, c.NVals, minLen, sortedKeys(used), &c.ExclShort))
	}
	for r := 1; r < nRounds; r++ {
		rd := c19Round{}
		usedList := sortedKeys(used)
		edited := map[int]bool{}
		for i, n := 0, gen.OneOf(rt, "nedits", 0, 1, 1, 1, 2, 2, 3); i < n; i++ {
			e := genEdit(rt, nds, c.NVals, minLen, usedList, &c.ExclShort)
			rd.Edits = append(rd.Edits, e)
			if e.Kind == "exec" && !e.BadSender && used[mod(e.DS, nds)] {
				edited[mod(e.DS, nds)] = true
			}
		}
		rd.CacheOps = genCacheOps(rt, nds, usedList)
		rd.Mode = gen.OneOf(rt, "rmode", "direct", "direct", "direct-go", "tx", "tx", "tx-go", "restart", "restart", "restart")
		rd.Txs = genTxs(rt, nds, nActive, c.MaxData, sortedKeys(edited), used, rd.Mode == "restart", c.Exec == "rest", &hangLeft)
		if rd.Mode == "restart" {
			rd.Idle = gen.OneOf(rt, "ridle", 0, 0, 1, 3)
			if r == nRounds-1 {
				rd.Expire = gen.OneOf(rt, "rexpire", 0, 0, 0, 0, 0, 0, 0, 1, 1, 2)
			}
		}
		rd.Rot = gen.Uniform(rt, "rrot", 4)
		rd.Rev = gen.Chance(rt, "rrev", 1, 3)
		rd.Ghost = gen.Chance(rt, "rghost", 1, 10)
		if gen.Chance(rt, "rfails", 1, 2) {
			rd.StoreFail, rd.DataFail = genFails(rt, c.MaxTry)
		}
		if gen.Chance(rt, "rlate", 1, 8) {
			rd.LateEdits = append(rd.LateEdits, genEdit(rt, nds, c.NVals, minLen, sortedKeys(used), &c.ExclShort))
		}
		c.Rounds = append(c.Rounds, rd)
	}
	if c.Expire > 0 || (len(c.Rounds) > 0 && c.Rounds[len(c.Rounds)-1].Expire > 0) {
		c.ExpBlocks = 30 // more than all blocks before the last round's start-up, few enough to be walked through
	} else {
		// (a proposal takes three blocks; cases that walk up to the expiry keep their block budget)
		if nRounds == 1 {
			if gen.Chance(rt, "lp1", 1, 3) {
				c.LateParams = genLateParams(rt, true, c.MaxData)
			}
		} else {
			if gen.Chance(rt, "lp1", 1, 8) {
				c.LateParams = genLateParams(rt, false, c.MaxData)
			}
			for i := range c.Rounds {
				last := i == len(c.Rounds)-1
				if (last && gen.Chance(rt, "lpl", 1, 3)) || (!last && gen.Chance(rt, "lpm", 1, 8)) {
					c.Rounds[i].LateParams = genLateParams(rt, last, c.MaxData)
				}
			}
		}
	}
	return c
}

// ---- fixed material ----------------------------------------------------------------------------------

func execBytes(d c19DS) []byte {
	n := d.Len
	if n < 1 {
		n = 1
	}
	if n > oracletypes.MaxExecutableSize {
		n = oracletypes.MaxExecutableSize
	}
	b := make([]byte, n)
	for i := range b {
		b[i] = byte((i*131 + d.Seed*29 + 7) % 251)
	}
	if n >= 2 {
		b[0], b[1] = '#', '!'
	}
	return b
}

// cutOut is what an executor with output limit cut (0 = none) returns for r (docker.go: io.LimitReader on the output).
func cutOut(r c19Raw, cut int) []byte {
	b := outBytes(r)
	if cut > 0 && len(b) > cut {
		b = b[:cut]
	}
	return b
}

// restOut is the output of r in executor mode "rest": the endpoint answers in JSON strings, so the bytes are printable
// ASCII; the endpoint (the remote executor) cuts it to its limit like the stub does.
func restOut(r c19Raw, cut int) []byte {
	b := outBytes(r)
	for i := range b {
		b[i] = 32 + b[i]%95
	}
	if cut > 0 && len(b) > cut {
		b = b[:cut]
	}
	return b
}

func outBytes(r c19Raw) []byte {
	n := r.OutLen
	if n < 0 {
		n = 0
	}
	if n > 4096 {
		n = 4096
	}
	b := make([]byte, n)
	for i := range b {
		b[i] = byte(i*7 + r.OutSeed)
	}
	return b
}

// c19Script is one generic oracle script: prepare() reads the request calldata as a list of records
// (external id i64 LE, data source id i64 LE, calldata length i64 LE, calldata bytes) and asks each of them.
var c19ScriptOnce struct {
	sync.Once
	wasm []byte
}

func c19Script() []byte {
	c19ScriptOnce.Do(func() {
		c19ScriptOnce.wasm = sim.Wat(`(module
 (type $t0 (func))
 (type $t1 (func (param i64 i64 i64 i64)))
 (type $t2 (func (param i64 i64)))
 (type $t3 (func (param i64) (result i64)))
 (import "env" "read_calldata" (func $read_calldata (type $t3)))
 (import "env" "ask_external_data" (func $ask (type $t1)))
 (import "env" "set_return_data" (func $ret (type $t2)))
 (func $prepare (export "prepare") (type $t0)
   (local $ptr i64) (local $end i64) (local $len i64)
   (local.set $ptr (i64.const 1024))
   (local.set $end (i64.add (i64.const 1024) (call $read_calldata (i64.const 1024))))
   (block $done
     (loop $l
       (br_if $done (i64.gt_s (i64.add (local.get $ptr) (i64.const 24)) (local.get $end)))
       (local.set $len (i64.load (i32.wrap_i64 (i64.add (local.get $ptr) (i64.const 16)))))
       (call $ask
         (i64.load (i32.wrap_i64 (local.get $ptr)))
         (i64.load (i32.wrap_i64 (i64.add (local.get $ptr) (i64.const 8))))
         (i64.add (local.get $ptr) (i64.const 24))
         (local.get $len))
       (local.set $ptr (i64.add (local.get $ptr) (i64.add (i64.const 24) (local.get $len))))
       (br $l))))
 (func $execute (export "execute") (type $t0)
   (call $ret (i64.const 512) (i64.const 2)))
 (memory (export "memory") 17)
 (data (i32.const 512) "ok"))
`)
	})
	return c19ScriptOnce.wasm
}

func scriptCalldata(q c19Req, nds int) []byte {
	var b bytes.Buffer
	for _, r := range q.Raws {
		_ = binary.Write(&b, binary.LittleEndian, int64(r.EID))
		_ = binary.Write(&b, binary.LittleEndian, int64(1+mod(r.DS, nds)))
		_ = binary.Write(&b, binary.LittleEndian, int64(len(r.Calldata)))
		b.Write(r.Calldata)
	}
	return b.Bytes()
}

func mod(a, n int) int {
	if n <= 0 {
		return 0
	}
	a %= n
	if a < 0 {
		a += n
	}
	return a
}

// keyrings: built once per process (deterministic mnemonic), one with a single reporter key, one with three.
var c19Keys struct {
	sync.Once
	kb  map[int]keyring.Keyring
	err error
}

const c19Mnemonic = "abandon abandon abandon abandon abandon abandon abandon abandon abandon abandon abandon about"

func keyringFor(n int) (keyring.Keyring, error) {
	c19Keys.Do(func() {
		reg := codectypes.NewInterfaceRegistry()
		cryptocodec.RegisterInterfaces(reg)
		cdc := codec.NewProtoCodec(reg)
		c19Keys.kb = map[int]keyring.Keyring{}
		for _, k := range []int{1, 3} {
			kb := keyring.NewInMemory(cdc)
			for i := 0; i < k; i++ {
				if _, err := kb.NewAccount(fmt.Sprintf("reporter%d", i), c19Mnemonic, "", hd.CreateHDPath(494, 0, uint32(i)).String(), hd.Secp256k1); err != nil {
					c19Keys.err = err
					return
				}
			}
			c19Keys.kb[k] = kb
		}
	})
	if c19Keys.err != nil {
		return nil, c19Keys.err
	}
	if n != 3 {
		n = 1
	}
	return c19Keys.kb[n], nil
}

// ---- stubs -------------------------------------------------------------------------------------------

// rpcStub implements only what the daemon's request handling calls: ABCIQuery. Every other method of the
// embedded (nil) interface is unreachable from handleRequest/handleTransaction.
type rpcStub struct {
	rpcclient.Client
	app      *band.BandApp
	inflight *int64
	yield    bool
	permFail map[string]bool // file hash -> Query/Data always fails

	mu         sync.Mutex
	storeLeft  int
	dataLeft   int
	storeFails int
	dataFails  int
	permFails  int
	storeOK    int
	dataOK     int
	other      int
	bad        string
}

const dataPath = "/band.oracle.v1.Query/Data"

func (s *rpcStub) ABCIQuery(_ context.Context, path string, data cmtbytes.HexBytes) (res *ctypes.ResultABCIQuery, err error) {
	atomic.AddInt64(s.inflight, 1)
	defer atomic.AddInt64(s.inflight, -1)
	defer func() {
		if r := recover(); r != nil { // the node side must never take the daemon down
			s.mu.Lock()
			s.bad = fmt.Sprintf("app.Query panicked: %v", r)
			s.mu.Unlock()
			res, err = nil, errors.New("stub: internal error")
		}
	}()
	if s.yield {
		runtime.Gosched()
	}
	s.mu.Lock()
	switch {
	case strings.HasPrefix(path, "/store/"):
		if s.storeLeft > 0 {
			s.storeLeft--
			s.storeFails++
			s.mu.Unlock()
			return nil, errors.New("stub: injected store query failure")
		}
		s.storeOK++
	case path == dataPath:
		var q oracletypes.QueryDataRequest
		if uerr := q.Unmarshal(data); uerr != nil {
			s.bad = "undecodable QueryDataRequest"
		}
		if s.permFail[q.DataHash] {
			s.permFails++
			s.mu.Unlock()
			return nil, errors.New("stub: file cannot be fetched")
		}
		if s.dataLeft > 0 {
			s.dataLeft--
			s.dataFails++
			s.mu.Unlock()
			return nil, errors.New("stub: injected data query failure")
		}
		s.dataOK++
	default:
		s.other++
	}
	s.mu.Unlock()
	r, qerr := s.app.Query(context.Background(), &abci.RequestQuery{Path: path, Data: data})
	if qerr != nil {
		return nil, qerr
	}
	return &ctypes.ResultABCIQuery{Response: *r}, nil
}

type execKey struct{ rid, eid uint64 }

// execAccept is what the executor may be handed for one raw request: the executable of its data source when the
// request was made (the hash the raw_request event carries) or when the daemon handles it.
type execAccept struct{ reqHash, handleHash string }

type execStub struct {
	inflight *int64
	cut      int               // output limit of the executor (0 = none)
	real     executor.Executor // executor mode "rest": the real executor; the stub only keeps the books
	dur      map[execKey]time.Duration

	mu          sync.Mutex
	outcomes    map[execKey]c19Raw
	accept      map[execKey]execAccept
	calls       map[execKey]int
	gotHash     map[execKey]string // hash of the executable handed over (last call)
	errServed   int
	wrongExec   int
	wrongArg    int
	unknownCall int
	atReqTime   int // calls handed the request-time executable where it differs from the handling-time one
	atHandle    int // calls handed the handling-time executable where it differs from the request-time one
}

func envStr(env interface{}, k string) string {
	m, ok := env.(map[string]interface{})
	if !ok {
		return ""
	}
	s, _ := m[k].(string)
	return s
}

func (e *execStub) Exec(code []byte, arg string, env interface{}) (executor.ExecResult, error) {
	atomic.AddInt64(e.inflight, 1)
	defer atomic.AddInt64(e.inflight, -1)
	rid, _ := strconv.ParseUint(envStr(env, "BAND_REQUEST_ID"), 10, 64)
	eid, _ := strconv.ParseUint(envStr(env, "BAND_EXTERNAL_ID"), 10, 64)
	k := execKey{rid, eid}
	h := filecache.GetFilename(code)
	e.mu.Lock()
	raw, ok := e.outcomes[k]
	if !ok {
		e.unknownCall++
		e.mu.Unlock()
		return executor.ExecResult{}, errors.New("stub: unknown raw request")
	}
	e.calls[k]++
	e.gotHash[k] = h
	acc := e.accept[k]
	switch {
	case h != acc.reqHash && h != acc.handleHash:
		e.wrongExec++
	case acc.reqHash == acc.handleHash:
	case h == acc.reqHash:
		e.atReqTime++
	default:
		e.atHandle++
	}
	if arg != string(raw.Calldata) {
		e.wrongArg++
	}
	if raw.Kind == "err" {
		e.errServed++
	}
	e.mu.Unlock()
	if e.real != nil {
		t0 := time.Now()
		res, err := e.real.Exec(code, arg, env)
		d := time.Since(t0)
		e.mu.Lock()
		e.dur[k] = d
		e.mu.Unlock()
		return res, err
	}
	if raw.DelayUs > 0 {
		time.Sleep(time.Duration(raw.DelayUs) * time.Microsecond)
	}
	if raw.Kind == "err" {
		return executor.ExecResult{}, errors.New("stub: executor failed")
	}
	return executor.ExecResult{Output: cutOut(raw, e.cut), Code: raw.Code, Version: "stub:1"}, nil
}

// ---- the executor endpoint of mode "rest" ------------------------------------------------------------------

const restTimeout = 2000 * time.Millisecond // client timeout of the real executor; only a "hang" may reach it

type restEndpoint struct {
	ex   *execStub // outcomes by (request id, external id), under ex.mu
	cut  int
	stop chan struct{}

	mu                                                                    sync.Mutex
	okServed, statusServed, longBodyServed, badJSON, hangs, closes, tests int
	unknown, badRequest                                                   int
}

func errorPage(status, n int) []byte {
	page := []byte(fmt.Sprintf("<html><head><title>%d %s</title></head><body><h1>%d %s</h1><hr><center>gateway</center>", status, http.StatusText(status), status, http.StatusText(status)))
	for len(page) < n {
		page = append(page, []byte("<!-- a padding to disable MSIE and Chrome friendly error page -->\n")...)
	}
	return page[:n]
}

func (s *restEndpoint) ServeHTTP(rw http.ResponseWriter, rq *http.Request) {
	var body struct {
		Executable string            `json:"executable"`
		Calldata   string            `json:"calldata"`
		Timeout    int64             `json:"timeout"`
		Env        map[string]string `json:"env"`
	}
	count := func(p *int) {
		s.mu.Lock()
		*p++
		s.mu.Unlock()
	}
	if err := json.NewDecoder(rq.Body).Decode(&body); err != nil {
		count(&s.badRequest)
		http.Error(rw, "bad request", http.StatusBadRequest)
		return
	}
	if _, err := base64.StdEncoding.DecodeString(body.Executable); err != nil {
		count(&s.badRequest)
	}
	answer := func(code uint32, stdout, stderr string) {
		rw.Header().Set("Content-Type", "application/json")
		_ = json.NewEncoder(rw).Encode(map[string]any{"returncode": code, "stdout": stdout, "stderr": stderr, "version": "rest:1"})
	}
	if body.Env["BAND_REQUEST_ID"] == "test-request-id" { // the self test of executor.NewExecutor
		count(&s.tests)
		answer(0, body.Calldata+" "+body.Env["BAND_CHAIN_ID"]+"\n", "")
		return
	}
	rid, _ := strconv.ParseUint(body.Env["BAND_REQUEST_ID"], 10, 64)
	eid, _ := strconv.ParseUint(body.Env["BAND_EXTERNAL_ID"], 10, 64)
	s.ex.mu.Lock()
	raw, ok := s.ex.outcomes[execKey{rid, eid}]
	s.ex.mu.Unlock()
	if !ok {
		count(&s.unknown)
		http.Error(rw, "unknown raw request", http.StatusNotFound)
		return
	}
	if raw.DelayUs > 0 {
		time.Sleep(time.Duration(raw.DelayUs) * time.Microsecond)
	}
	if raw.Kind != "err" {
		count(&s.okServed)
		out := string(restOut(raw, s.cut))
		if raw.Code == 0 {
			answer(0, out, "decoy: stderr of a successful run")
		} else {
			answer(raw.Code, "decoy: stdout of a failed run", out)
		}
		return
	}
	switch raw.Fail {
	case "badjson":
		count(&s.badJSON)
		rw.Header().Set("Content-Type", "application/json")
		_, _ = rw.Write([]byte(`{"returncode": 0, "stdout": "cut off in the midd`))
	case "hang": // no answer until the client gives up
		count(&s.hangs)
		select {
		case <-rq.Context().Done():
		case <-s.stop:
		case <-time.After(10 * time.Second):
		}
	case "close":
		count(&s.closes)
		if hj, ok := rw.(http.Hijacker); ok {
			if conn, _, err := hj.Hijack(); err == nil {
				_ = conn.Close()
				return
			}
		}
		panic(http.ErrAbortHandler)
	default:
		st := raw.Status
		if st < 300 || st > 599 {
			st = 500
		}
		count(&s.statusServed)
		rw.Header().Set("Content-Type", "text/html")
		rw.WriteHeader(st)
		n := raw.BodyLen
		if n < 0 {
			n = 0
		}
		if n > 8192 {
			n = 8192
		}
		if n > 0 {
			_, _ = rw.Write(errorPage(st, n))
		}
	}
}

// ---- crash journal -----------------------------------------------------------------------------------

func journalPath() string {
	d := os.Getenv("VERIF_REPLAY_OUT")
	if d == "" {
		d = "/verif/replays"
	}
	shard := os.Getenv("VERIF_SHARD")
	if shard == "" {
		shard = "0"
	}
	return filepath.Join(d, "C19", "journal-"+shard+".json")
}

// journal writes the case before it is executed: a panic inside a daemon goroutine kills the whole process, and
// the file that is left behind is the crashing case (same wrapper format as pbt's replay files).
var journalSeq int64

func journal(c c19Case) string {
	p := journalPath()
	seq := atomic.AddInt64(&journalSeq, 1)
	cj, err := json.Marshal(c)
	if err != nil {
		return ""
	}
	wrap := map[string]any{
		"property":  "C19",
		"test":      "TestC19",
		"signature": sigCrash,
		"violation": "the yoda daemon process died (panic in a daemon goroutine) while handling this case",
		"case":      json.RawMessage(cj),
		"case_seq":  seq, // how many cases this worker had started (including this one)
	}
	b, _ := json.MarshalIndent(wrap, "", " ")
	_ = os.MkdirAll(filepath.Dir(p), 0o755)
	if os.WriteFile(p, b, 0o644) != nil {
		return ""
	}
	return p
}

// ---- run ---------------------------------------------------------------------------------------------

type reqModel struct {
	id         uint64
	q          c19Req
	selected   bool
	round      int
	height     int64    // height of the block that made the request
	vals       []string // requested validators, in the chain's order
	reqHash    []string // per raw request: hash of the data source's executable when the request was made
	handleHash []string // per raw request: hash of the data source's executable when the daemon handles it
}

type dsVer struct {
	exec []byte
	hash string
}

const quiesceGuard = 20 * time.Second

// c19World is the state of one case: the chain, the one long-lived daemon and the harness' model of both.
type c19World struct {
	c     c19Case
	v     *pbt.Verdict
	ch    *sim.Chain
	nds   int
	me    int
	myVal sdk.ValAddress

	cur        map[uint64]dsVer // model of the chain: data source id -> current executable
	seenHash   map[string]bool  // every file hash the chain has been given so far
	cachedHash map[string]bool  // files the harness put into the daemon's file cache
	permHash   map[string]bool  // files the node never serves
	pre        filecache.Cache

	inflight int64
	rpc      *rpcStub
	ex       *execStub
	yc       *yoda.Context
	yl       *yoda.Logger

	models   []*reqModel
	byID     map[uint64]*reqModel
	reported map[uint64]int    // request id -> reports queued so far (all rounds)
	lookedUp map[uint64]string // data source id -> hash at the daemon's previous look-up (selected request handled)

	// statistics over all rounds
	roundsRun, selectedN, maxRaws, dropsExhausted, loadFailures, loadAmbiguous, reports int
	failedTx, storeExhausted, short, hit, severalTxs                                    bool
	editsApplied, editsRefused, editsHashChanged, editsSameBytes, editsNoMod            int
	editsFeeOnly, lateHashChanged, betweenHashChanged                                   int
	askedAgainRaws, askedAgainRan, askedUneditedAgain                                   int
	modes                                                                               map[string]bool
	delivered, deliveredAtMax, deliveredBelowMax, overRefused, overAccepted             int

	rest                                                                       *restEndpoint
	restLongBody, restShortBody, restTimeouts, restBadJSON, restClosed, restOK int
	spuriousTimeouts, errReportsWithData                                       int

	damaged                                                     map[string]bool // file hashes whose cache file the harness has damaged or deleted
	cacheOpsApplied, cacheOpsDamaging, cacheOpsMissing          int
	damagedAskedRaws, damagedAskedRan, damagedAskedAfterRestart int

	paramChanges, maxRawLowered, maxDataChanged, openOverMaxRaw, openOverMaxRawDelivered int

	nRounds  int
	cacheDir string
	kb       keyring.Keyring
	// restart rounds
	restartRounds, rsOwed, rsBelowMin, rsAtMin, rsAboveMin, rsResolved, rsAllOthers, rsMine, rsExpired int
	rsOlderOwed, rsReturned, rsOtherReports, rsIdleBlocks                                              int
}

// applyEdits sends one MsgEditDataSource transaction per edit in one block and moves the model along.
func (w *c19World) applyEdits(edits []c19Edit, late bool, ri int) bool {
	if len(edits) == 0 {
		return true
	}
	v, ch := w.v, w.ch
	owner := ch.Users[0]
	model := map[uint64]dsVer{}
	for id, d := range w.cur {
		model[id] = d
	}
	type plan struct {
		e       c19Edit
		id      uint64
		before  dsVer
		after   dsVer
		refused bool
	}
	var plans []plan
	var txs [][]byte
	for _, e := range edits {
		id := uint64(1 + mod(e.DS, w.nds))
		before := model[id]
		after := before
		var exe []byte
		switch e.Kind {
		case "exec":
			exe = execBytes(c19DS{Len: e.Len, Seed: e.Seed})
			after = dsVer{exec: exe, hash: filecache.GetFilename(exe)}
		case "same":
			exe = before.exec
		default:
			exe = oracletypes.DoNotModifyBytes
		}
		sender := owner
		if e.BadSender {
			sender, after = ch.Vals[0], before
		}
		treasury := owner.Addr
		if e.Treasury > 0 {
			treasury = ch.Vals[mod(e.Treasury-1, len(ch.Vals))].Addr
		}
		fee := sdk.Coins{}
		if e.Fee > 0 {
			fee = sdk.NewCoins(sdk.NewInt64Coin("uband", e.Fee))
		}
		msg := oracletypes.NewMsgEditDataSource(oracletypes.DataSourceID(id), fmt.Sprintf("ds%d", id), "edited", exe, fee, treasury, owner.Addr, sender.Addr)
		txs = append(txs, ch.SignTx(sender, msg))
		plans = append(plans, plan{e: e, id: id, before: before, after: after, refused: e.BadSender})
		model[id] = after
	}
	res, err := ch.Block(txs, 2*time.Second)
	if err != nil || len(res.Resp.TxResults) != len(plans) {
		v.Failf("harness", "edit block failed: %v", err)
		return false
	}
	for i, p := range plans {
		tr := res.Resp.TxResults[i]
		if (tr.Code != 0) != p.refused {
			v.Failf("harness", "MsgEditDataSource %d (%s, bad sender %v): code %d log %q", p.id, p.e.Kind, p.e.BadSender, tr.Code, tr.Log)
			return false
		}
		if p.refused {
			w.editsRefused++
			continue
		}
		w.editsApplied++
		switch {
		case p.after.hash != p.before.hash:
			w.editsHashChanged++
			if late {
				w.lateHashChanged++
			} else if ri > 0 {
				w.betweenHashChanged++
			}
		case p.e.Kind == "nomod":
			w.editsNoMod++
		default:
			w.editsSameBytes++ // "same", or new bytes that happen to be the old ones
		}
		if p.after.hash == p.before.hash && p.e.Fee > 0 {
			w.editsFeeOnly++
		}
		if p.e.Kind == "exec" && !w.seenHash[p.after.hash] {
			// a file the chain has never seen: its fetch/cache fate is part of the case
			w.seenHash[p.after.hash] = true
			if p.e.PermFail {
				w.rpc.mu.Lock()
				w.permHash[p.after.hash] = true
				w.rpc.mu.Unlock()
			}
			if p.e.Cached {
				w.pre.AddFile(p.after.exec)
				w.cachedHash[p.after.hash] = true
			}
		}
	}
	w.cur = model
	// the data sources are the chain's: what the node holds must be what the model says
	for id, d := range w.cur {
		ds, derr := ch.App.OracleKeeper.GetDataSource(ch.Ctx(), oracletypes.DataSourceID(id))
		if derr != nil || ds.Filename != d.hash || !bytes.Equal(ch.App.OracleKeeper.GetFile(ds.Filename), d.exec) {
			v.Failf("harness", "data source %d after the edits is not what the model expects: %v", id, derr)
			return false
		}
	}
	return true
}

// changeParams runs a governance proposal that changes oracle params while this round's requests are open.
func (w *c19World) changeParams(lp *c19Params) bool {
	if lp == nil {
		return true
	}
	v, ch := w.v, w.ch
	cur := ch.App.OracleKeeper.GetParams(ch.Ctx())
	np := cur
	if lp.MaxRaw > 0 {
		np.MaxRawRequestCount = uint64(lp.MaxRaw)
	}
	if lp.MaxData > 0 {
		np.MaxReportDataSize = uint64(lp.MaxData)
	}
	if lp.MaxCalldata > 0 {
		np.MaxCalldataSize = uint64(lp.MaxCalldata)
	}
	if np.Equal(cur) {
		return true
	}
	passed, _, err := ch.GovExec(&oracletypes.MsgUpdateParams{Authority: sim.GovAuthority(), Params: np})
	if err != nil || !passed {
		v.Failf("harness", "oracle params proposal did not pass: %v", err)
		return false
	}
	if got := ch.App.OracleKeeper.GetParams(ch.Ctx()); !got.Equal(np) {
		v.Failf("harness", "oracle params after the proposal are not the proposed ones")
		return false
	}
	w.paramChanges++
	if np.MaxRawRequestCount < cur.MaxRawRequestCount {
		w.maxRawLowered++
	}
	if np.MaxReportDataSize != cur.MaxReportDataSize {
		w.maxDataChanged++
	}
	return true
}

// damageCache applies the round's cache operations to the files of the daemon's cache directory. From then on the
// harness no longer counts the file as cached: the daemon has to get the executable from the node.
func (w *c19World) damageCache(ops []c19CacheOp) {
	for _, op := range ops {
		d := w.cur[uint64(1+mod(op.DS, w.nds))]
		path := filepath.Join(w.cacheDir, d.hash)
		old, err := os.ReadFile(path)
		if err != nil || d.hash == "" {
			w.cacheOpsMissing++ // nothing cached under this name (yet)
			continue
		}
		var werr error
		switch op.Kind {
		case "delete":
			werr = os.Remove(path)
		case "empty":
			werr = os.WriteFile(path, nil, 0o600)
		case "overwrite":
			b := make([]byte, len(old))
			for i := range old {
				b[i] = old[i] ^ 0xff
			}
			werr = os.WriteFile(path, b, 0o600)
		default: // truncate: the first half survived
			werr = os.WriteFile(path, old[:len(old)/2], 0o600)
		}
		if werr != nil {
			w.cacheOpsMissing++
			continue
		}
		w.cacheOpsApplied++
		if op.Kind != "delete" {
			w.cacheOpsDamaging++
		}
		w.damaged[d.hash] = true
		delete(w.cachedHash, d.hash)
	}
}

// othersReport (restart rounds): before the daemon starts, the generated subset of the other selected validators
// reports on the round's requests, and for some requests the daemon's own validator has a report from an earlier life.
// The reports are ordinary MsgReportData transactions signed by the validators' accounts, all in one block.
func (w *c19World) othersReport(models []*reqModel) bool {
	v, ch := w.v, w.ch
	idxOf := map[string]int{}
	for i, a := range ch.Vals {
		idxOf[a.Val.String()] = i
	}
	var txs [][]byte
	ctx := ch.Ctx()
	for _, m := range models {
		var others []int
		for _, a := range m.vals {
			if i, ok := idxOf[a]; ok && i != w.me {
				others = append(others, i)
			}
		}
		req, err := ch.App.OracleKeeper.GetRequest(ctx, oracletypes.RequestID(m.id))
		if err != nil {
			v.Failf("harness", "request %d not on the chain: %v", m.id, err)
			return false
		}
		n := m.q.Others
		switch n {
		case -1:
			n = len(others)
		case -2:
			n = int(req.MinCount)
		case -3:
			n = int(req.MinCount) - 1
		}
		if n < 0 {
			n = 0
		}
		if n > len(others) {
			n = len(others)
		}
		raws := func(tag string) []oracletypes.RawReport {
			var out []oracletypes.RawReport
			for _, r := range m.q.Raws {
				out = append(out, oracletypes.NewRawReport(oracletypes.ExternalID(r.EID), 0, []byte(tag)))
			}
			return out
		}
		for i := 0; i < n; i++ {
			j := others[(mod(m.q.OthersRot, len(others))+i)%len(others)]
			txs = append(txs, ch.SignTx(ch.Vals[j], oracletypes.NewMsgReportData(oracletypes.RequestID(m.id), raws("o"), ch.Vals[j].Val)))
			w.rsOtherReports++
		}
		if m.q.MeRep && m.selected {
			txs = append(txs, ch.SignTx(ch.Vals[w.me], oracletypes.NewMsgReportData(oracletypes.RequestID(m.id), raws("m"), w.myVal)))
		}
	}
	if len(txs) == 0 {
		return true
	}
	res, err := ch.Block(txs, time.Second)
	if err != nil || len(res.Resp.TxResults) != len(txs) {
		v.Failf("harness", "block with the other validators' reports failed: %v", err)
		return false
	}
	for _, tr := range res.Resp.TxResults {
		if tr.Code != 0 {
			v.Failf("harness", "report of another validator refused: %s/%d %s", tr.Codespace, tr.Code, firstLine(tr.Log))
			return false
		}
	}
	return true
}

// beforeStartup (restart rounds): lets the generated number of blocks pass (in the last round possibly until requests
// have expired), reads from the chain's state which requests of the whole case are owed a report by the validator,
// prepares the stubs for requests of earlier rounds that are handled again, and replaces the daemon by a fresh one.
func (w *c19World) beforeStartup(ri int, rd c19Round, models []*reqModel) ([]*reqModel, map[uint64]bool, map[uint64]string, bool) {
	v, ch := w.v, w.ch
	k := ch.App.OracleKeeper
	block := func() bool {
		if _, err := ch.Block(nil, time.Second); err != nil {
			v.Failf("harness", "empty block failed: %v", err)
			return false
		}
		w.rsIdleBlocks++
		return true
	}
	for i := 0; i < rd.Idle; i++ {
		if !block() {
			return nil, nil, nil, false
		}
	}
	if rd.Expire > 0 {
		// a request made at height h is expired by the end blocker of block h+ExpirationBlockCount
		var newest int64 = -1
		for _, m := range w.models {
			if (m.round < ri || rd.Expire == 2) && m.height > newest {
				newest = m.height
			}
		}
		if newest >= 0 {
			target := newest + int64(k.GetParams(ch.Ctx()).ExpirationBlockCount)
			for guard := 0; ch.Height < target && guard < 250; guard++ {
				if !block() {
					return nil, nil, nil, false
				}
			}
		}
	}
	ctx := ch.Ctx()
	lastExpired := uint64(k.GetRequestLastExpired(ctx))
	owed, whyNot := map[uint64]bool{}, map[uint64]string{}
	var refreshed []*reqModel
	for _, m := range w.models {
		rid := oracletypes.RequestID(m.id)
		switch {
		case !m.selected:
			whyNot[m.id] = "does not select the validator"
		case m.id <= lastExpired:
			whyNot[m.id] = "has expired"
			w.rsExpired++
		case k.HasReport(ctx, rid, w.myVal):
			whyNot[m.id] = "already has a report of the validator on the chain"
			w.rsMine++
		default:
			owed[m.id] = true
			w.rsOwed++
			if m.round < ri {
				w.rsOlderOwed++
				refreshed = append(refreshed, m)
			}
			req, err := k.GetRequest(ctx, rid)
			if err != nil {
				v.Failf("harness", "request %d not on the chain: %v", m.id, err)
				return nil, nil, nil, false
			}
			cnt := k.GetReportCount(ctx, rid)
			switch {
			case cnt < req.MinCount:
				w.rsBelowMin++
			case cnt == req.MinCount:
				w.rsAtMin++
			default:
				w.rsAboveMin++
			}
			if k.HasResult(ctx, rid) {
				w.rsResolved++
			}
			if int(cnt) == len(req.RequestedValidators)-1 {
				w.rsAllOthers++
			}
		}
	}
	// requests of earlier rounds that the new daemon will handle again: the executor stub forgets the earlier life,
	// and "the data source's executable at handling time" is the one the chain holds now
	w.ex.mu.Lock()
	for _, m := range refreshed {
		for j, r := range m.q.Raws {
			key := execKey{m.id, r.EID}
			h := w.cur[uint64(1+mod(r.DS, w.nds))].hash
			if j < len(m.handleHash) {
				m.handleHash[j] = h
			}
			w.ex.accept[key] = execAccept{reqHash: m.reqHash[j], handleHash: h}
			delete(w.ex.calls, key)
			delete(w.ex.gotHash, key)
		}
	}
	w.ex.mu.Unlock()
	// a new process: fresh Context (nothing remembered), same file cache directory on disk
	if ri > 0 {
		yc, err := yoda.VerifNewContext(ch.App, w.rpc, w.myVal, w.ex, w.kb, ch.Cfg.ChainID, w.cacheDir, uint64(w.c.MaxTry), 50*time.Microsecond, 256)
		if err != nil {
			v.Failf("harness", "VerifNewContext (restart): %v", err)
			return nil, nil, nil, false
		}
		w.yc = yc
	}
	w.reported = map[uint64]int{}
	w.lookedUp = map[uint64]string{}
	w.restartRounds++
	return w.models, owed, whyNot, true
}

func runC19(c c19Case) *pbt.Verdict {
	v := &pbt.Verdict{}
	if os.Getenv("VERIF_C19_NOJOURNAL") == "" {
		if jp := journal(c); jp != "" {
			defer os.Remove(jp)
		}
	}
	// sanitise (a hand-edited replay must not be able to panic the harness)
	bad := c.NVals < 1 || c.NVals > 8 || len(c.Active) != c.NVals || len(c.DSs) == 0 || len(c.DSs) > 16 || len(c.Txs) > 8 ||
		len(c.Rounds) > 4 || len(c.LateEdits) > 8
	for _, rd := range c.Rounds {
		bad = bad || len(rd.Txs) > 8 || len(rd.Edits) > 8 || len(rd.LateEdits) > 8
	}
	if bad {
		v.Class("malformed-case")
		return v
	}
	if c.MaxTry < 1 {
		c.MaxTry = 1
	}
	if c.MaxTry > 5 {
		c.MaxTry = 5
	}
	if c.MaxData < 0 || c.MaxData > 1024 {
		c.MaxData = 0
	}
	if c.ExecCut < 0 {
		c.ExecCut = 0
	}
	nds := len(c.DSs)
	me := mod(c.Me, c.NVals)
	if c.ExclShort > 0 {
		v.Count("excluded_known", int64(c.ExclShort))
	}
	rounds := append([]c19Round{{LateParams: c.LateParams, CacheOps: c.CacheOps, LateEdits: c.LateEdits, Txs: c.Txs, Mode: c.Mode, Rot: c.Rot, Rev: c.Rev, Ghost: c.Ghost,
		Idle: c.Idle, Expire: c.Expire, StoreFail: c.StoreFail, DataFail: c.DataFail}}, c.Rounds...)
	for i := range rounds {
		if lp := rounds[i].LateParams; lp != nil {
			cp := *lp // (the case itself is not modified)
			if cp.MaxRaw < 0 || cp.MaxRaw > 64 || (cp.MaxRaw > 0 && cp.MaxRaw < 6 && i != len(rounds)-1) {
				cp.MaxRaw = 0
			}
			if cp.MaxData < 0 || cp.MaxData > 4096 {
				cp.MaxData = 0
			}
			if cp.MaxCalldata != 0 && (cp.MaxCalldata < 512 || cp.MaxCalldata > 65536) {
				cp.MaxCalldata = 0
			}
			rounds[i].LateParams = &cp
		}
		if len(rounds[i].CacheOps) > 8 {
			rounds[i].CacheOps = rounds[i].CacheOps[:8]
		}
		if rounds[i].Idle < 0 || rounds[i].Idle > 5 {
			rounds[i].Idle = 0
		}
		if i != len(rounds)-1 || rounds[i].Expire < 0 || rounds[i].Expire > 2 {
			rounds[i].Expire = 0 // an expiry deactivates the validators that did not report: last round only
		}
	}
	if c.ExpBlocks != 0 && (c.ExpBlocks < 30 || c.ExpBlocks > 200) {
		c.ExpBlocks = 30
	}

	w := &c19World{c: c, v: v, nds: nds, cur: map[uint64]dsVer{}, seenHash: map[string]bool{}, cachedHash: map[string]bool{},
		permHash: map[string]bool{}, byID: map[uint64]*reqModel{}, reported: map[uint64]int{}, lookedUp: map[uint64]string{},
		modes: map[string]bool{}, nRounds: len(rounds), damaged: map[string]bool{}}

	// -- chain ------------------------------------------------------------------------------------------
	vals := make([]sim.ValSpec, c.NVals)
	for i := range vals {
		vals[i] = sim.ValSpec{Tokens: int64(10+i) * 1_000_000}
	}
	var dss []sim.DSSpec
	for i, d := range c.DSs {
		b := execBytes(d)
		dss = append(dss, sim.DSSpec{Exec: b, Treasury: 0})
		h := filecache.GetFilename(b)
		w.cur[uint64(i+1)] = dsVer{exec: b, hash: h}
		w.seenHash[h] = true
		if d.Cached {
			w.cachedHash[h] = true
		}
		if d.PermFail {
			w.permHash[h] = true
		}
	}
	op := oracletypes.DefaultParams()
	op.MaxCalldataSize = 1024
	if c.MaxData > 0 {
		op.MaxReportDataSize = uint64(c.MaxData)
	}
	if c.ExpBlocks > 0 {
		op.ExpirationBlockCount = uint64(c.ExpBlocks)
	}
	ch, err := sim.New(sim.Config{NumAccounts: 1, Validators: vals, Oracle: &op, DataSources: dss, Scripts: [][]byte{c19Script()}}, 0)
	if err != nil {
		v.Failf("harness", "sim.New: %v", err)
		return v
	}
	defer ch.Close()
	w.ch = ch
	w.me = me
	w.myVal = ch.Vals[me].Val
	var txs [][]byte
	for i, a := range c.Active {
		if a {
			txs = append(txs, ch.SignTx(ch.Vals[i], oracletypes.NewMsgActivate(ch.Vals[i].Val)))
		}
	}
	if _, err := ch.Block(txs, time.Second); err != nil {
		v.Failf("harness", "activation block failed: %v", err)
		return v
	}
	// the data sources are the chain's: what the node serves for a file must be what was registered
	for id, d := range w.cur {
		ds, derr := ch.App.OracleKeeper.GetDataSource(ch.Ctx(), oracletypes.DataSourceID(id))
		if derr != nil || ds.Filename != d.hash || len(d.exec) == 0 {
			v.Failf("harness", "data source %d not registered as expected: %v", id, derr)
			return v
		}
	}

	// -- daemon: ONE Context and one file cache directory for the whole case -------------------------------
	cacheDir, err := os.MkdirTemp("", "verif-c19-cache-")
	if err != nil {
		v.Failf("harness", "temp dir: %v", err)
		return v
	}
	defer os.RemoveAll(cacheDir)
	w.cacheDir = cacheDir
	w.pre = filecache.New(cacheDir)
	for _, d := range w.cur {
		if w.cachedHash[d.hash] {
			w.pre.AddFile(d.exec)
		}
	}
	w.rpc = &rpcStub{app: ch.App, inflight: &w.inflight, yield: c.Yield, permFail: w.permHash}
	w.ex = &execStub{inflight: &w.inflight, cut: c.ExecCut, dur: map[execKey]time.Duration{}, outcomes: map[execKey]c19Raw{}, accept: map[execKey]execAccept{}, calls: map[execKey]int{},
		gotHash: map[execKey]string{}}
	kb, err := keyringFor(c.NKeys)
	if err != nil {
		v.Failf("harness", "keyring: %v", err)
		return v
	}
	w.kb = kb
	if c.Exec == "rest" {
		// the real REST executor of yoda/executor against an endpoint in this process (keep-alives off: every exchange
		// has a connection of its own, which is gone when the exchange is over)
		w.rest = &restEndpoint{ex: w.ex, cut: c.ExecCut, stop: make(chan struct{})}
		srv := httptest.NewUnstartedServer(w.rest)
		srv.Config.SetKeepAlivesEnabled(false)
		srv.Start()
		defer srv.Close()
		defer close(w.rest.stop)
		// NewExecutor runs a self test against the endpoint with the same client timeout; on an overloaded machine that
		// one exchange may time out, which says nothing about the daemon: try again
		real, rerr := executor.NewExecutor(fmt.Sprintf("rest:%s/?timeout=%s", srv.URL, restTimeout))
		for try := 0; rerr != nil && try < 5; try++ {
			v.Count("rest_self_test_retries", 1)
			real, rerr = executor.NewExecutor(fmt.Sprintf("rest:%s/?timeout=%s", srv.URL, restTimeout))
		}
		if rerr != nil {
			v.Failf("harness", "executor.NewExecutor(rest): %v", rerr)
			return v
		}
		w.ex.real = real
	}
	w.yc, err = yoda.VerifNewContext(ch.App, w.rpc, w.myVal, w.ex, kb, ch.Cfg.ChainID, cacheDir, uint64(c.MaxTry), 50*time.Microsecond, 256)
	if err != nil {
		v.Failf("harness", "VerifNewContext: %v", err)
		return v
	}
	w.yl = yoda.VerifLogger(log.NewNopLogger())

	if c.Procs > 0 && c.Procs <= 64 {
		old := runtime.GOMAXPROCS(c.Procs)
		defer runtime.GOMAXPROCS(old)
	}

	for ri, rd := range rounds {
		override, cont := w.round(ri, rd)
		if override != nil {
			return override
		}
		if !cont {
			break
		}
	}
	if v.Violation != "" && strings.HasPrefix(v.Signature, "harness") {
		return v
	}
	w.stats(len(rounds))
	return v
}

// round runs one round on the long-lived daemon. It returns a verdict that replaces the case's verdict (an
// inconclusive case), or whether the next round may run.
func (w *c19World) round(ri int, rd c19Round) (*pbt.Verdict, bool) {
	v, ch, c, nds := w.v, w.ch, w.c, w.nds
	myVal := w.myVal

	// -- chain-side edits before the requests of this round ------------------------------------------------
	if !w.applyEdits(rd.Edits, false, ri) {
		return nil, false
	}
	w.damageCache(rd.CacheOps)
	reqVer := w.cur

	// -- requests ---------------------------------------------------------------------------------------
	var txs [][]byte
	for _, t := range rd.Txs {
		var msgs []sdk.Msg
		for qi, q := range t.Reqs {
			ask := q.Ask
			if t.Bad && qi == len(t.Reqs)-1 {
				ask = c.NVals + 1
			}
			min := q.Min
			if min < 1 {
				min = 1
			}
			if min > ask {
				min = ask
			}
			msgs = append(msgs, oracletypes.NewMsgRequestData(1, scriptCalldata(q, nds), uint64(ask), uint64(min), q.Client,
				sdk.NewCoins(sdk.NewInt64Coin("uband", 1_000_000)), 1_000_000, 1_000_000, ch.Users[0].Addr, oracletypes.ENCODER_UNSPECIFIED))
		}
		if len(msgs) == 0 {
			continue
		}
		txs = append(txs, ch.SignTx(ch.Users[0], msgs...))
	}
	res, err := ch.Block(txs, 3*time.Second)
	if err != nil {
		v.Failf("harness", "request block failed: %v", err)
		return nil, false
	}
	var models []*reqModel
	var txResults []abci.TxResult
	ti := 0
	for _, t := range rd.Txs {
		if len(t.Reqs) == 0 {
			continue
		}
		if ti >= len(res.Resp.TxResults) {
			break
		}
		tr := res.Resp.TxResults[ti]
		txResults = append(txResults, abci.TxResult{Height: res.Height, Index: uint32(ti), Tx: txs[ti], Result: *tr})
		ti++
		if tr.Code != 0 {
			if !t.Bad {
				v.Failf("harness", "request tx rejected by the chain: code %d log %q", tr.Code, tr.Log)
				return nil, false
			}
			w.failedTx = true
			continue
		}
		var reqEvs, rawEvs []abci.Event
		for _, e := range tr.Events {
			switch e.Type {
			case oracletypes.EventTypeRequest:
				reqEvs = append(reqEvs, e)
			case oracletypes.EventTypeRawRequest:
				rawEvs = append(rawEvs, e)
			}
		}
		if len(reqEvs) != len(t.Reqs) {
			v.Failf("harness", "tx has %d request events for %d request messages", len(reqEvs), len(t.Reqs))
			return nil, false
		}
		rawPos := 0
		for qi, q := range t.Reqs {
			id, perr := strconv.ParseUint(sim.Attr(reqEvs[qi], oracletypes.AttributeKeyID), 10, 64)
			if perr != nil || w.byID[id] != nil {
				v.Failf("harness", "bad request id in event: %q", sim.Attr(reqEvs[qi], oracletypes.AttributeKeyID))
				return nil, false
			}
			m := &reqModel{id: id, q: q, round: ri, height: res.Height}
			for _, val := range sim.Attrs(reqEvs[qi], oracletypes.AttributeKeyValidator) {
				m.vals = append(m.vals, val)
				if val == myVal.String() {
					m.selected = true
				}
			}
			// the chain's raw requests must be the ones this case describes (external id, data source, calldata, and
			// the hash of the data source's executable at this moment)
			for _, r := range q.Raws {
				if rawPos >= len(rawEvs) {
					v.Failf("harness", "request %d: missing raw_request event", id)
					return nil, false
				}
				e := rawEvs[rawPos]
				rawPos++
				did := uint64(1 + mod(r.DS, nds))
				if sim.Attr(e, oracletypes.AttributeKeyExternalID) != fmt.Sprint(r.EID) ||
					sim.Attr(e, oracletypes.AttributeKeyDataSourceID) != fmt.Sprint(did) ||
					sim.Attr(e, oracletypes.AttributeKeyDataSourceHash) != reqVer[did].hash ||
					sim.Attr(e, oracletypes.AttributeKeyCalldata) != string(r.Calldata) {
					v.Failf("harness", "request %d: raw_request event %v does not match the case (eid %d ds %d)", id, e, r.EID, did)
					return nil, false
				}
				m.reqHash = append(m.reqHash, reqVer[did].hash)
			}
			models = append(models, m)
			w.models = append(w.models, m)
			w.byID[id] = m
		}
	}

	restart := rd.Mode == "restart"
	if restart && !w.othersReport(models) {
		return nil, false
	}

	// -- chain-side edits between the requests and their handling ------------------------------------------
	if !w.applyEdits(rd.LateEdits, true, ri) {
		return nil, false
	}
	if !w.changeParams(rd.LateParams) {
		return nil, false
	}
	w.ex.mu.Lock()
	for _, m := range models {
		for j, r := range m.q.Raws {
			did := uint64(1 + mod(r.DS, nds))
			m.handleHash = append(m.handleHash, w.cur[did].hash)
			w.ex.outcomes[execKey{m.id, r.EID}] = r
			w.ex.accept[execKey{m.id, r.EID}] = execAccept{reqHash: m.reqHash[j], handleHash: w.cur[did].hash}
		}
	}
	w.ex.mu.Unlock()

	// evalModels are the requests this round may produce reports for; owed[id] = a report is due in this round.
	// live rounds: the round's own requests, owed iff they select the validator.
	// restart rounds: every request of the case, owed iff not expired, selecting the validator, without its report.
	evalModels := models
	owed := map[uint64]bool{}
	whyNot := map[uint64]string{}
	for _, m := range models {
		owed[m.id] = m.selected
	}
	if restart {
		var ok bool
		if evalModels, owed, whyNot, ok = w.beforeStartup(ri, rd, models); !ok {
			return nil, false
		}
	}

	// -- the daemon handles this round's requests -----------------------------------------------------------
	w.rpc.mu.Lock()
	w.rpc.storeLeft, w.rpc.dataLeft = rd.StoreFail, rd.DataFail
	w.rpc.mu.Unlock()
	yc, yl := w.yc, w.yl

	ids := make([]uint64, 0, len(models)+1)
	for _, m := range models {
		ids = append(ids, m.id)
	}
	if rd.Ghost {
		ids = append(ids, uint64(len(w.models))+7) // no such request on the chain
	}
	if n := len(ids); n > 0 {
		r := mod(rd.Rot, n)
		ids = append(append([]uint64{}, ids[r:]...), ids[:r]...)
		if rd.Rev {
			for i, j := 0, n-1; i < j; i, j = i+1, j-1 {
				ids[i], ids[j] = ids[j], ids[i]
			}
		}
	}
	order := make([]int, len(txResults))
	for i := range order {
		order[i] = i
	}
	if n := len(order); n > 0 {
		r := mod(rd.Rot, n)
		order = append(append([]int{}, order[r:]...), order[:r]...)
	}

	// baseline goroutine count: sampled until it is stable, so that a goroutine of the previous case (or of the
	// app) that is just exiting cannot be mistaken for daemon work later
	baseline := runtime.NumGoroutine()
	for same, tries := 0, 0; same < 3 && tries < 200; tries++ {
		time.Sleep(50 * time.Microsecond)
		if n := runtime.NumGoroutine(); n == baseline {
			same++
		} else {
			baseline, same = n, 0
		}
	}
	// The entry points run in a goroutine of their own so that a daemon call that never returns makes the case
	// inconclusive instead of hanging the harness.
	var launched, startupFailed int32
	var returned int64
	yc, yl = w.yc, w.yl // (a restart round has just built a fresh Context)
	go func() {
		defer atomic.StoreInt32(&launched, 1)
		switch rd.Mode {
		case "restart":
			// yoda/run.go runImpl at start-up: ask the node for the pending requests of the validator and handle each
			// of them in a goroutine. (runImpl has no verif accessor; its lines are repeated here. It also marks the
			// ids in c.pendingRequests, which only handleTransaction reads; no transaction is shown to this daemon.)
			bz := ch.App.AppCodec().MustMarshal(&oracletypes.QueryPendingRequestsRequest{ValidatorAddress: myVal.String()})
			resBz, qerr := w.rpc.ABCIQuery(context.Background(), "/band.oracle.v1.Query/PendingRequests", bz)
			if qerr != nil || resBz == nil || resBz.Response.Code != 0 {
				atomic.StoreInt32(&startupFailed, 1)
				return
			}
			pendingRequests := oracletypes.QueryPendingRequestsResponse{}
			if uerr := ch.App.AppCodec().Unmarshal(resBz.Response.Value, &pendingRequests); uerr != nil {
				atomic.StoreInt32(&startupFailed, 1)
				return
			}
			atomic.StoreInt64(&returned, int64(len(pendingRequests.RequestIDs)))
			for _, id := range pendingRequests.RequestIDs {
				go yoda.VerifHandleRequest(yc, yl, oracletypes.RequestID(id))
			}
		case "direct":
			for _, id := range ids {
				yoda.VerifHandleRequest(yc, yl, oracletypes.RequestID(id))
			}
		case "direct-go": // as runImpl does for the requests pending at start-up
			for _, id := range ids {
				go yoda.VerifHandleRequest(yc, yl, oracletypes.RequestID(id))
			}
		case "tx-go": // as runImpl does for every incoming transaction event
			for _, i := range order {
				go yoda.VerifHandleTransaction(yc, yl, txResults[i])
			}
		default:
			for _, i := range order {
				yoda.VerifHandleTransaction(yc, yl, txResults[i])
			}
		}
	}()
	w.modes[rd.Mode] = true

	// quiescence: all entry points returned, no stub call in flight and the goroutine count back at (or below)
	// the baseline, seen twice
	quiet := false
	deadline := time.Now().Add(quiesceGuard)
	sleep := 20 * time.Microsecond
	for streak := 0; ; {
		if atomic.LoadInt32(&launched) == 1 && atomic.LoadInt64(&w.inflight) == 0 && runtime.NumGoroutine() <= baseline {
			streak++
			if streak >= 2 {
				quiet = true
				break
			}
			runtime.Gosched()
			continue
		}
		streak = 0
		if time.Now().After(deadline) {
			break
		}
		time.Sleep(sleep)
		if sleep < 2*time.Millisecond {
			sleep *= 2
		}
	}
	if !quiet {
		iv := &pbt.Verdict{}
		iv.Class("inconclusive")
		iv.Class("inconclusive:no-quiescence-within-guard")
		return iv, false
	}
	if atomic.LoadInt32(&startupFailed) != 0 {
		v.Failf("harness", "round %d: the PendingRequests query of the start-up failed", ri+1)
		return nil, false
	}
	w.rsReturned += int(atomic.LoadInt64(&returned))
	msgs := yoda.VerifDrain(yc)
	w.roundsRun++
	w.reports += len(msgs)

	// -- oracle -----------------------------------------------------------------------------------------
	w.rpc.mu.Lock()
	rpcBad := w.rpc.bad
	w.rpc.mu.Unlock()
	w.ex.mu.Lock()
	calls := map[execKey]int{}
	gotHash := map[execKey]string{}
	durs := map[execKey]time.Duration{}
	for _, m := range evalModels {
		for _, r := range m.q.Raws {
			k := execKey{m.id, r.EID}
			calls[k], gotHash[k], durs[k] = w.ex.calls[k], w.ex.gotHash[k], w.ex.dur[k]
		}
	}
	maxDataNow := int(ch.App.OracleKeeper.GetParams(ch.Ctx()).MaxReportDataSize)
	legitOver := map[uint64]bool{} // requests whose report may legitimately carry data longer than the chain's limit
	unknownCall := w.ex.unknownCall
	w.ex.mu.Unlock()
	if rpcBad != "" {
		v.Failf("harness", "rpc stub: %s", rpcBad)
		return nil, false
	}
	if unknownCall > 0 {
		v.Failf("C19/unknown-exec", "the daemon ran the executor %d time(s) for a (request id, external id) that no request has", unknownCall)
	}
	// A store query that fails max-try times in a row makes GetRequest/GetDataSourceHash give up; the daemon then
	// returns without a report. The statement's 255 rule is about the executable, so in that region the check
	// does not demand a report (drops are counted) but still demands that whatever is queued is right.
	storeExhausted := rd.StoreFail >= c.MaxTry
	if storeExhausted {
		w.storeExhausted = true
	}
	// Query/Data failures beyond the retry budget may turn up to DataFail/MaxTry raw requests into load failures,
	// which ones depends on the interleaving.
	loadBudget := rd.DataFail / c.MaxTry

	got := map[uint64][]*oracletypes.MsgReportData{}
	for _, m := range msgs {
		if m == nil {
			v.Failf("C19/nil-report", "nil message queued")
			continue
		}
		got[uint64(m.RequestID)] = append(got[uint64(m.RequestID)], m)
		w.reported[uint64(m.RequestID)]++
	}
	gotIDs := make([]uint64, 0, len(got))
	for id := range got {
		gotIDs = append(gotIDs, id)
	}
	sort.Slice(gotIDs, func(i, j int) bool { return gotIDs[i] < gotIDs[j] })
	for _, id := range gotIDs {
		m := w.byID[id]
		switch {
		case m == nil:
			v.Failf("C19/unknown-request", "report queued for request %d which does not exist", id)
		case !m.selected:
			v.Failf("C19/unselected-report", "report queued for request %d which does not select validator %s", id, myVal)
		case restart && !owed[id]:
			v.Failf("C19/unowed-report", "start-up in round %d: report queued for request %d (round %d) which %s", ri+1, id, m.round+1, whyNot[id])
		case w.reported[id] > 1:
			v.Failf("C19/duplicate", "%d reports queued for request %d (round %d, request of round %d)", w.reported[id], id, ri+1, m.round+1)
		case m.round != ri && !restart:
			v.Failf("C19/duplicate", "report for request %d of round %d queued while handling round %d", id, m.round+1, ri+1)
		}
	}
	ctx := ch.Ctx()
	for _, m := range evalModels {
		if !owed[m.id] {
			continue
		}
		w.selectedN++
		reps := got[m.id]
		if len(reps) == 0 {
			if storeExhausted {
				w.dropsExhausted++
				continue
			}
			if restart {
				v.Failf("C19/dropped", "start-up in round %d: request %d (made in round %d, min_count %d, %d reports of other validators, resolved %v) is not expired, selects %s and has no report of it, but no report was queued (%d ids returned by PendingRequests)",
					ri+1, m.id, m.round+1, ch.App.OracleKeeper.MustGetRequest(ctx, oracletypes.RequestID(m.id)).MinCount, ch.App.OracleKeeper.GetReportCount(ctx, oracletypes.RequestID(m.id)),
					ch.App.OracleKeeper.HasResult(ctx, oracletypes.RequestID(m.id)), myVal, atomic.LoadInt64(&returned))
				continue
			}
			v.Failf("C19/dropped", "request %d (round %d) selects %s but no report was queued (%d raw requests, mode %s)", m.id, ri+1, myVal, len(m.q.Raws), rd.Mode)
			continue
		}
		if len(m.q.Raws) > w.maxRaws {
			w.maxRaws = len(m.q.Raws)
		}
		rep := reps[0]
		if rep.Validator != myVal.String() {
			v.Failf("C19/wrong-validator", "request %d: report names validator %s, daemon works for %s", m.id, rep.Validator, myVal)
		}
		byEID := map[uint64][]oracletypes.RawReport{}
		for _, rr := range rep.RawReports {
			byEID[uint64(rr.ExternalID)] = append(byEID[uint64(rr.ExternalID)], rr)
		}
		if len(rep.RawReports) != len(m.q.Raws) {
			v.Failf("C19/raw-reports", "request %d: %d raw reports for %d raw requests", m.id, len(rep.RawReports), len(m.q.Raws))
		}
		for j, r := range m.q.Raws {
			rrs := byEID[r.EID]
			if len(rrs) != 1 {
				v.Failf("C19/raw-reports", "request %d: %d raw reports for external id %d, want exactly 1", m.id, len(rrs), r.EID)
				continue
			}
			rr := rrs[0]
			did := uint64(1 + mod(r.DS, nds))
			hReq, hNow := m.reqHash[j], m.handleHash[j]
			n := calls[execKey{m.id, r.EID}]
			if w.damaged[hNow] {
				w.damagedAskedRaws++
				if restart {
					w.damagedAskedAfterRestart++
				}
			}
			// did the daemon look this data source up before, and has its executable been replaced since?
			prevHash, seenBefore := w.lookedUp[did]
			if seenBefore && ri > 0 {
				if prevHash != hNow {
					w.askedAgainRaws++
					if n >= 1 {
						w.askedAgainRan++
					}
				} else {
					w.askedUneditedAgain++
				}
			}
			if n > 1 {
				v.Count("exec_called_twice", 1)
			}
			if n >= 1 {
				// the executor ran. It must have been handed the executable of THIS data source: the one the chain
				// held when the request was made (raw_request event) or holds now; anything else (e.g. an executable
				// the owner has replaced before the request was even made) is not a run of the data source.
				h := gotHash[execKey{m.id, r.EID}]
				if h != hReq && h != hNow {
					v.Failf("C19/wrong-executable", "request %d (round %d) eid %d data source %d: the executor was handed executable %.12s, "+
						"the data source's executable is %.12s (at request time %.12s); previous look-up by the daemon saw %.12s",
						m.id, ri+1, r.EID, did, h, hNow, hReq, prevHash)
				}
				// the report carries its exit code and output, or 255 if it returned an error
				isRest := w.rest != nil
				// (rest) a time-out result that the clock explains: the exchange really took the whole client timeout,
				// although the endpoint was not told to hang. Load, not behaviour: the case cannot be judged.
				if isRest && rr.ExitCode == 111 && len(rr.Data) == 0 && !(r.Kind == "err" && r.Fail == "hang") && !(r.Kind != "err" && r.Code == 111 && r.OutLen == 0) &&
					durs[execKey{m.id, r.EID}] >= restTimeout*9/10 {
					w.spuriousTimeouts++
					continue
				}
				if r.Kind == "err" {
					wantCode := uint32(255)
					if isRest && r.Fail == "hang" {
						wantCode = 111 // rest.go: a client timeout is reported as exit code 111 with empty output
					}
					if rr.ExitCode != wantCode {
						v.Failf("C19/outcome", "request %d eid %d: executor failed (%s) but exit code is %d, want %d", m.id, r.EID, "error"+r.Fail, rr.ExitCode, wantCode)
					}
					if len(rr.Data) != 0 {
						w.errReportsWithData++ // whether the chain takes it is decided by the delivery below
					}
					if isRest {
						switch {
						case r.Fail == "hang":
							w.restTimeouts++
						case r.Fail == "badjson":
							w.restBadJSON++
						case r.Fail == "close":
							w.restClosed++
						case r.BodyLen > maxDataNow:
							w.restLongBody++
						default:
							w.restShortBody++
						}
					}
				} else {
					want := cutOut(r, c.ExecCut)
					if isRest {
						want = restOut(r, c.ExecCut)
						w.restOK++
					}
					if len(want) > maxDataNow {
						legitOver[m.id] = true // the executor itself produced more than the chain's limit (it did not cut)
					}
					if rr.ExitCode != r.Code || !bytes.Equal(rr.Data, want) {
						v.Failf("C19/outcome", "request %d eid %d: report (exit %d, %d bytes) differs from the executor's result (exit %d, %d bytes)",
							m.id, r.EID, rr.ExitCode, len(rr.Data), r.Code, len(want))
					}
				}
				if w.damaged[h] {
					w.damagedAskedRan++
				}
				if (h == hReq || h == hNow) && w.permHash[h] && !w.cachedHash[h] && !w.damaged[h] { // (a damaged file may live on in the daemon's memory)
					v.Failf("harness", "request %d eid %d: executor ran although the file can never be fetched", m.id, r.EID)
				}
				continue
			}
			// the executor did not run for this raw request: only a load failure explains that
			if rr.ExitCode != 255 {
				v.Failf("C19/outcome", "request %d eid %d: the data source was not run but exit code is %d, want 255", m.id, r.EID, rr.ExitCode)
			}
			switch h := hNow; {
			case hReq != hNow:
				// edited between request and handling: either file may have been the one that could not be loaded
				w.loadAmbiguous++
				w.loadFailures++
			case w.cachedHash[h]:
				v.Failf("C19/outcome", "request %d eid %d: executable is in the file cache but was not run", m.id, r.EID)
			case w.permHash[h]:
				w.loadFailures++
			case loadBudget > 0:
				loadBudget--
				w.loadFailures++
			default:
				v.Failf("C19/outcome", "request %d (round %d) eid %d: executable was fetchable (injected Data failures %d, max try %d) but was not run", m.id, ri+1, r.EID, rd.DataFail, c.MaxTry)
			}
			if !bytes.Equal(rr.Data, []byte("FAIL_TO_LOAD_DATA_SOURCE")) {
				v.Count("load_failure_other_data", 1)
			} else if len(rr.Data) > maxDataNow {
				// yoda's fixed load-failure marker (24 bytes) is longer than a MaxReportDataSize of 16: the chain refuses
				// such a report. Only reachable with a limit far below the default; counted, not asserted.
				legitOver[m.id] = true
				v.Count("load_failure_marker_longer_than_limit", 1)
			}
		}
		if err := rep.ValidateBasic(); err != nil {
			v.Failf("C19/validate-basic", "request %d: report fails ValidateBasic: %v", m.id, err)
		}
		val, aerr := sdk.ValAddressFromBech32(rep.Validator)
		if aerr != nil {
			v.Failf("C19/validate-basic", "request %d: bad validator address %q", m.id, rep.Validator)
		} else if err := ch.App.OracleKeeper.CheckValidReport(ctx, rep.RequestID, val, rep.RawReports); err != nil {
			v.Failf("C19/chain-reject", "request %d: chain's CheckValidReport rejects the report: %v", m.id, err)
		}
	}
	// what the daemon has now looked up (it reads the data source of every raw request of a request it reports)
	for _, m := range evalModels {
		if !owed[m.id] || len(got[m.id]) == 0 {
			continue
		}
		for j, r := range m.q.Raws {
			w.lookedUp[uint64(1+mod(r.DS, nds))] = m.handleHash[j]
		}
	}

	if w.spuriousTimeouts > 0 {
		iv := &pbt.Verdict{}
		iv.Class("inconclusive")
		iv.Class("inconclusive:rest-exchange-slower-than-client-timeout")
		iv.Count("rest_exchange_slower_than_client_timeout", int64(w.spuriousTimeouts))
		return iv, false
	}

	// A violation must not be an artefact of evaluating too early: if anything is still moving a moment later
	// (a late report, a stub call), quiescence had not been reached and the case is inconclusive instead.
	if v.Violation != "" {
		time.Sleep(300 * time.Millisecond)
		if late := yoda.VerifDrain(yc); len(late) > 0 || atomic.LoadInt64(&w.inflight) != 0 || runtime.NumGoroutine() > baseline {
			iv := &pbt.Verdict{}
			iv.Class("inconclusive")
			iv.Count("late_activity_after_quiescence", 1)
			return iv, false
		}
		return nil, false
	}

	// -- delivery: the chain the requests came from decides whether the reports pass its validation -----------
	// Each report travels in a transaction of its own, signed by the validator's account, in the very next block.
	// The request is open, selects the validator and has no report of it yet (all checked above), so the only
	// legitimate refusal is a raw report longer than MaxReportDataSize because the executor's own successful output
	// was that long (it did not cut). Data that long in any other raw report (an executor failure) is the daemon's doing.
	maxData := int(ch.App.OracleKeeper.GetParams(ctx).MaxReportDataSize)
	maxRawNow := ch.App.OracleKeeper.GetParams(ctx).MaxRawRequestCount
	var dtxs [][]byte
	var dreps []*oracletypes.MsgReportData
	for _, m := range evalModels {
		if reps := got[m.id]; owed[m.id] && len(reps) == 1 {
			dtxs = append(dtxs, ch.SignTx(ch.Vals[w.me], reps[0]))
			dreps = append(dreps, reps[0])
		}
	}
	if len(dtxs) > 0 {
		dres, derr := ch.Block(dtxs, time.Second)
		if derr != nil || len(dres.Resp.TxResults) != len(dreps) {
			v.Failf("C19/delivery-block", "round %d: the block carrying %d reports could not be finalized: %v", ri+1, len(dreps), derr)
			return nil, false
		}
		for i, rp := range dreps {
			tr := dres.Resp.TxResults[i]
			overRaw := uint64(len(rp.RawReports)) > maxRawNow
			if overRaw {
				w.openOverMaxRaw++
				if tr.Code == 0 {
					w.openOverMaxRawDelivered++
				}
			}
			over, atMax, longest := false, false, 0
			for _, rr := range rp.RawReports {
				if len(rr.Data) > longest {
					longest = len(rr.Data)
				}
				over = over || len(rr.Data) > maxData
				atMax = atMax || len(rr.Data) == maxData
			}
			switch {
			case tr.Code == 0 && over:
				w.overAccepted++
			case tr.Code == 0:
				w.delivered++
				if atMax {
					w.deliveredAtMax++
				} else if longest == maxData-1 {
					w.deliveredBelowMax++
				}
			case over && legitOver[uint64(rp.RequestID)]:
				w.overRefused++
				if tr.Codespace != oracletypes.ModuleName || tr.Code != oracletypes.ErrTooLargeRawReportData.ABCICode() {
					v.Count("over_limit_refused_other_reason", 1)
				}
			default:
				v.Failf(fmt.Sprintf("C19/delivery-refused:%s/%d", tr.Codespace, tr.Code),
					"request %d (round %d): the report the daemon queued (%d raw reports, longest data %d bytes, MaxReportDataSize %d) was refused by the chain in block h=%d: %s",
					uint64(rp.RequestID), ri+1, len(rp.RawReports), longest, maxData, dres.Height, firstLine(tr.Log))
			}
		}
		if v.Violation != "" {
			return nil, false
		}
	}

	// -- per-round class material -------------------------------------------------------------------------
	for _, m := range evalModels {
		if !owed[m.id] {
			continue
		}
		for j, r := range m.q.Raws {
			if len(w.cur[uint64(1+mod(r.DS, nds))].exec) < 32 {
				w.short = true
			}
			if w.cachedHash[m.handleHash[j]] {
				w.hit = true
			}
		}
	}
	if len(txResults) > 1 && strings.HasPrefix(rd.Mode, "tx") {
		w.severalTxs = true
	}
	return nil, true
}

// stats fills non-triviality, classes and counters from what all rounds did.
func (w *c19World) stats(nRounds int) {
	v := w.v
	w.rpc.mu.Lock()
	storeFails, dataFails, permFails, dataOK := w.rpc.storeFails, w.rpc.dataFails, w.rpc.permFails, w.rpc.dataOK
	w.rpc.mu.Unlock()
	w.ex.mu.Lock()
	errServed, wrongExec, wrongArg, atReq, atHandle := w.ex.errServed, w.ex.wrongExec, w.ex.wrongArg, w.ex.atReqTime, w.ex.atHandle
	w.ex.mu.Unlock()

	injected := storeFails + dataFails + permFails + errServed
	v.NonTrivial = w.maxRaws >= 2 && injected >= 1
	v.Count("requests", int64(len(w.models)))
	v.Count("selected_requests", int64(w.selectedN))
	v.Count("reports", int64(w.reports))
	v.Count("rpc_failures_served", int64(storeFails+dataFails+permFails))
	v.Count("executor_errors_served", int64(errServed))
	v.Count("rpc_exhausted_drops", int64(w.dropsExhausted))
	v.Count("exec_wrong_executable", int64(wrongExec))
	v.Count("exec_wrong_calldata", int64(wrongArg))
	v.Count("rounds_run", int64(w.roundsRun))
	v.Count("edits_applied", int64(w.editsApplied))
	v.Count("edits_refused_non_owner", int64(w.editsRefused))
	v.Count("edits_hash_changed", int64(w.editsHashChanged))
	v.Count("edits_same_bytes", int64(w.editsSameBytes))
	v.Count("edits_do_not_modify", int64(w.editsNoMod))
	v.Count("edits_fee_only", int64(w.editsFeeOnly))
	v.Count("edited_ds_asked_again_raws", int64(w.askedAgainRaws))
	v.Count("edited_ds_asked_again_executed", int64(w.askedAgainRan))
	v.Count("unedited_ds_asked_again_raws", int64(w.askedUneditedAgain))
	v.Count("exec_got_request_time_executable", int64(atReq))
	v.Count("exec_got_handling_time_executable", int64(atHandle))
	v.Count("load_failure_ambiguous_hash", int64(w.loadAmbiguous))
	v.Count("executor_error_reports_with_data", int64(w.errReportsWithData))
	if w.rest != nil {
		v.Class("executor:rest")
		w.rest.mu.Lock()
		v.Count("rest_unknown_or_bad_requests", int64(w.rest.unknown+w.rest.badRequest))
		v.Count("rest_exchanges", int64(w.rest.okServed+w.rest.statusServed+w.rest.badJSON+w.rest.hangs+w.rest.closes))
		w.rest.mu.Unlock()
		v.Count("rest_ok_reports", int64(w.restOK))
		v.Count("rest_non_2xx_long_body_reports", int64(w.restLongBody))
		v.Count("rest_non_2xx_short_body_reports", int64(w.restShortBody))
		v.Count("rest_timeout_reports", int64(w.restTimeouts))
		v.Count("rest_bad_json_reports", int64(w.restBadJSON))
		v.Count("rest_connection_closed_reports", int64(w.restClosed))
		if w.restLongBody > 0 {
			v.Class("rest-non-2xx-long-body")
		}
		if w.restShortBody > 0 {
			v.Class("rest-non-2xx-short-body")
		}
		if w.restTimeouts > 0 {
			v.Class("rest-timeout")
		}
		if w.restBadJSON > 0 {
			v.Class("rest-bad-json")
		}
		if w.restClosed > 0 {
			v.Class("rest-connection-closed")
		}
	} else {
		v.Class("executor:stub")
	}
	v.Count("oracle_param_changes_while_requests_open", int64(w.paramChanges))
	v.Count("max_raw_request_count_lowered", int64(w.maxRawLowered))
	v.Count("max_report_data_size_changed", int64(w.maxDataChanged))
	v.Count("reports_for_open_request_above_current_max_raw_count", int64(w.openOverMaxRaw))
	v.Count("reports_for_open_request_above_current_max_raw_count_accepted", int64(w.openOverMaxRawDelivered))
	if w.paramChanges > 0 {
		v.Class("oracle-params-changed-while-requests-open")
	}
	if w.openOverMaxRaw > 0 {
		v.Class("open-request-exceeds-current-max-raw-count")
	}
	v.Count("cache_ops_applied", int64(w.cacheOpsApplied))
	v.Count("cache_ops_damaging", int64(w.cacheOpsDamaging))
	v.Count("cache_ops_no_such_file", int64(w.cacheOpsMissing))
	v.Count("damaged_cache_entry_asked_raws", int64(w.damagedAskedRaws))
	v.Count("damaged_cache_entry_asked_and_executed", int64(w.damagedAskedRan))
	v.Count("damaged_cache_entry_asked_after_restart", int64(w.damagedAskedAfterRestart))
	if w.cacheOpsDamaging > 0 {
		v.Class("cache-entry-damaged")
	}
	if w.cacheOpsApplied > w.cacheOpsDamaging {
		v.Class("cache-entry-deleted")
	}
	if w.damagedAskedRaws > 0 {
		v.Class("damaged-cache-entry-asked")
	}
	if w.damagedAskedAfterRestart > 0 {
		v.Class("damaged-cache-entry-asked-after-restart")
	}
	v.Count("restart_rounds", int64(w.restartRounds))
	v.Count("restart_pending_ids_returned", int64(w.rsReturned))
	v.Count("restart_owed_requests", int64(w.rsOwed))
	v.Count("restart_owed_from_earlier_rounds", int64(w.rsOlderOwed))
	v.Count("restart_owed_below_min_count", int64(w.rsBelowMin))
	v.Count("restart_owed_at_min_count", int64(w.rsAtMin))
	v.Count("restart_owed_above_min_count", int64(w.rsAboveMin))
	v.Count("restart_owed_resolved", int64(w.rsResolved))
	v.Count("restart_owed_all_others_reported", int64(w.rsAllOthers))
	v.Count("restart_already_reported_by_me", int64(w.rsMine))
	v.Count("restart_expired", int64(w.rsExpired))
	v.Count("restart_reports_of_others", int64(w.rsOtherReports))
	v.Count("restart_idle_blocks", int64(w.rsIdleBlocks))
	if w.restartRounds > 0 {
		v.Class("restart-round")
	}
	if w.rsBelowMin > 0 {
		v.Class("restart:request-below-min-count")
	}
	if w.rsAtMin+w.rsAboveMin > 0 {
		v.Class("restart:request-at-min-count-without-my-report")
	}
	if w.rsResolved > 0 {
		v.Class("restart:request-resolved-without-my-report")
	}
	if w.rsAllOthers > 0 {
		v.Class("restart:all-others-reported")
	}
	if w.rsMine > 0 {
		v.Class("restart:already-reported-by-me")
	}
	if w.rsExpired > 0 {
		v.Class("restart:expired")
	}
	if w.rsOlderOwed > 0 {
		v.Class("restart:owed-from-earlier-round")
	}
	v.Count("reports_delivered_accepted", int64(w.delivered))
	v.Count("reports_delivered_with_data_at_max_size", int64(w.deliveredAtMax))
	v.Count("reports_delivered_with_data_one_below_max", int64(w.deliveredBelowMax))
	v.Count("reports_over_limit_refused", int64(w.overRefused))
	v.Count("reports_over_limit_accepted", int64(w.overAccepted))
	if w.delivered > 0 {
		v.Class("report-delivered-accepted")
	}
	if w.deliveredAtMax > 0 {
		v.Class("report-data-at-max-size")
	}
	if w.deliveredBelowMax > 0 {
		v.Class("report-data-one-below-max-size")
	}
	if w.overRefused > 0 {
		v.Class("report-over-limit-refused")
	}
	v.Class(fmt.Sprintf("max-report-data:%d", w.ch.App.OracleKeeper.GetParams(w.ch.Ctx()).MaxReportDataSize))
	for _, m := range []string{"direct", "direct-go", "tx", "tx-go", "restart"} {
		if w.modes[m] {
			v.Class("mode:" + m)
		}
	}
	switch {
	case len(w.models) == 0:
		v.Class("no-request")
	case w.selectedN == 0:
		v.Class("not-selected")
	case w.selectedN < len(w.models):
		v.Class("selected-some")
	default:
		v.Class("selected-all")
	}
	if w.roundsRun > 1 {
		v.Class("multi-round")
	}
	if w.betweenHashChanged > 0 {
		v.Class("executable-edited-between-rounds")
	}
	if w.lateHashChanged > 0 {
		v.Class("executable-edited-between-request-and-handling")
	}
	if w.askedAgainRaws > 0 {
		v.Class("edited-ds-asked-again")
	}
	if w.askedAgainRan > 0 {
		v.Class("edited-ds-asked-again-and-executed")
	}
	if w.askedUneditedAgain > 0 {
		v.Class("unedited-ds-asked-again")
	}
	if w.editsSameBytes+w.editsNoMod > 0 {
		v.Class("edit-keeps-hash")
	}
	if w.editsRefused > 0 {
		v.Class("edit-refused")
	}
	if atReq > 0 {
		v.Class("ran-request-time-executable")
	}
	if atHandle > 0 {
		v.Class("ran-handling-time-executable")
	}
	if w.failedTx {
		v.Class("failed-tx")
	}
	if w.storeExhausted {
		v.Class("store-exhausted")
	}
	if storeFails+dataFails > 0 {
		v.Class("transient-rpc-failure")
	}
	if permFails > 0 {
		v.Class("perm-fetch-failure")
	}
	if errServed > 0 {
		v.Class("executor-error")
	}
	if w.loadFailures > 0 {
		v.Class("load-failure")
	}
	v.Count("load_failure_reports", int64(w.loadFailures))
	if dataOK > 0 {
		v.Class("cache-miss-fetched")
	}
	if w.short {
		v.Class("short-executable")
	}
	if w.hit {
		v.Class("cache-hit")
	}
	if w.maxRaws >= 2 {
		v.Class("multi-raw")
	}
	if w.severalTxs {
		v.Class("several-txs")
	}
}

func firstLine(s string) string {
	if i := strings.IndexByte(s, '\n'); i >= 0 {
		s = s[:i]
	}
	if len(s) > 300 {
		s = s[:300]
	}
	return s
}

func TestC19(t *testing.T) { pbt.Check(t, "C19", genC19, runC19) }
