module verif/harness

go 1.23

toolchain go1.23.5

require (
	github.com/bandprotocol/chain/v3 v3.0.0
	pgregory.net/rapid v1.3.0
)

require (
	cloud.google.com/go v0.115.0 // indirect
	cloud.google.com/go/auth v0.6.0 // indirect
	cloud.google.com/go/auth/oauth2adapt v0.2.2 // indirect
	cloud.google.com/go/compute/metadata v0.5.0 // indirect
	cloud.google.com/go/iam v1.1.9 // indirect
	cloud.google.com/go/storage v1.41.0 // indirect
	cosmossdk.io/api v0.7.6
	cosmossdk.io/client/v2 v2.0.0-beta.6
	cosmossdk.io/collections v0.4.0 // indirect
	cosmossdk.io/core v0.11.2
	cosmossdk.io/depinject v1.0.0 // indirect
	cosmossdk.io/errors v1.0.1
	cosmossdk.io/log v1.4.1
	cosmossdk.io/math v1.4.0
	cosmossdk.io/store v1.1.1
	cosmossdk.io/tools/confix v0.1.2
	cosmossdk.io/tools/rosetta v0.2.1-0.20230613133644-0a778132a60f
	cosmossdk.io/x/circuit v0.1.1 // indirect
	cosmossdk.io/x/evidence v0.1.1
	cosmossdk.io/x/feegrant v0.1.1
	cosmossdk.io/x/tx v0.13.5
	cosmossdk.io/x/upgrade v0.1.4
	filippo.io/edwards25519 v1.1.0 // indirect
	github.com/99designs/go-keychain v0.0.0-20191008050251-8e49817e8af4 // indirect
	github.com/99designs/keyring v1.2.1 // indirect
	github.com/DataDog/datadog-go v3.2.0+incompatible // indirect
	github.com/DataDog/zstd v1.5.5 // indirect
	github.com/Masterminds/semver/v3 v3.3.1
	github.com/aws/aws-sdk-go v1.44.224 // indirect
	github.com/bandprotocol/bothan/bothan-api/client/go-client v0.0.1-alpha.6
	github.com/bandprotocol/go-owasm v0.3.1
	github.com/beorn7/perks v1.0.1 // indirect
	github.com/bgentry/go-netrc v0.0.0-20140422174119-9fd32a8b3d3d // indirect
	github.com/bgentry/speakeasy v0.1.1-0.20220910012023-760eaf8b6816 // indirect
	github.com/bits-and-blooms/bitset v1.13.0 // indirect
	github.com/btcsuite/btcd/btcec/v2 v2.3.4 // indirect
	github.com/bytecodealliance/wasmtime-go/v20 v20.0.0
	github.com/cenkalti/backoff/v4 v4.1.3 // indirect
	github.com/cespare/xxhash v1.1.0 // indirect
	github.com/cespare/xxhash/v2 v2.3.0 // indirect
	github.com/chzyer/readline v1.5.1 // indirect
	github.com/cockroachdb/apd/v2 v2.0.2 // indirect
	github.com/cockroachdb/errors v1.11.3 // indirect
	github.com/cockroachdb/fifo v0.0.0-20240606204812-0bbfbd93a7ce // indirect
	github.com/cockroachdb/logtags v0.0.0-20230118201751-21c54148d20b // indirect
	github.com/cockroachdb/pebble v1.1.2 // indirect
	github.com/cockroachdb/redact v1.1.5 // indirect
	github.com/cockroachdb/tokenbucket v0.0.0-20230807174530-cc333fc44b06 // indirect
	github.com/coinbase/rosetta-sdk-go/types v1.0.0 // indirect
	github.com/cometbft/cometbft v0.38.12
	github.com/cometbft/cometbft-db v0.11.0
	github.com/cosmos/btcutil v1.0.5 // indirect
	github.com/cosmos/cosmos-db v1.1.0
	github.com/cosmos/cosmos-proto v1.0.0-beta.5
	github.com/cosmos/cosmos-sdk v0.50.10
	github.com/cosmos/go-bip39 v1.0.0
	github.com/cosmos/gogogateway v1.2.0 // indirect
	github.com/cosmos/gogoproto v1.7.0
	github.com/cosmos/iavl v1.2.0 // indirect
	github.com/cosmos/ibc-go/modules/capability v1.0.1
	github.com/cosmos/ibc-go/v8 v8.5.2
	github.com/cosmos/ics23/go v0.11.0
	github.com/cosmos/ledger-cosmos-go v0.13.3 // indirect
	github.com/cosmos/rosetta-sdk-go v0.10.0 // indirect
	github.com/creachadair/atomicfile v0.3.1 // indirect
	github.com/creachadair/tomledit v0.0.24 // indirect
	github.com/danieljoos/wincred v1.1.2 // indirect
	github.com/davecgh/go-spew v1.1.2-0.20180830191138-d8f796af33cc // indirect
	github.com/decred/dcrd/dcrec/secp256k1/v4 v4.2.0
	github.com/desertbit/timer v0.0.0-20180107155436-c41aec40b27f // indirect
	github.com/dgraph-io/badger/v2 v2.2007.4 // indirect
	github.com/dgraph-io/ristretto v0.1.1 // indirect
	github.com/dgryski/go-farm v0.0.0-20200201041132-a6ae2369ad13 // indirect
	github.com/dustin/go-humanize v1.0.1 // indirect
	github.com/dvsekhvalnov/jose2go v1.6.0 // indirect
	github.com/emicklei/dot v1.6.1 // indirect
	github.com/ethereum/go-ethereum v1.14.12
	github.com/fatih/color v1.16.0 // indirect
	github.com/felixge/httpsnoop v1.0.4 // indirect
	github.com/fsnotify/fsnotify v1.7.0 // indirect
	github.com/getsentry/sentry-go v0.27.0 // indirect
	github.com/go-kit/kit v0.12.0 // indirect
	github.com/go-kit/log v0.2.1 // indirect
	github.com/go-logfmt/logfmt v0.6.0 // indirect
	github.com/go-logr/logr v1.4.1 // indirect
	github.com/go-logr/stdr v1.2.2 // indirect
	github.com/godbus/dbus v0.0.0-20190726142602-4481cbc300e2 // indirect
	github.com/gogo/googleapis v1.4.1 // indirect
	github.com/gogo/protobuf v1.3.2 // indirect
	github.com/golang/glog v1.2.2 // indirect
	github.com/golang/groupcache v0.0.0-20210331224755-41bb18bfe9da // indirect
	github.com/golang/mock v1.6.0 // indirect
	github.com/golang/protobuf v1.5.4
	github.com/golang/snappy v0.0.5-0.20220116011046-fa5810519dcb // indirect
	github.com/google/btree v1.1.3 // indirect
	github.com/google/go-cmp v0.6.0 // indirect
	github.com/google/go-querystring v1.1.0 // indirect
	github.com/google/orderedcode v0.0.1 // indirect
	github.com/google/s2a-go v0.1.7 // indirect
	github.com/google/shlex v0.0.0-20191202100458-e7afc7fbc510
	github.com/google/uuid v1.6.0 // indirect
	github.com/googleapis/enterprise-certificate-proxy v0.3.2 // indirect
	github.com/googleapis/gax-go/v2 v2.12.5 // indirect
	github.com/gorilla/handlers v1.5.2 // indirect
	github.com/gorilla/mux v1.8.1 // indirect
	github.com/gorilla/websocket v1.5.3 // indirect
	github.com/grpc-ecosystem/go-grpc-middleware v1.4.0 // indirect
	github.com/grpc-ecosystem/grpc-gateway v1.16.0
	github.com/grpc-ecosystem/grpc-gateway/v2 v2.22.0 // indirect
	github.com/gsterjov/go-libsecret v0.0.0-20161001094733-a6f4afe4910c // indirect
	github.com/hashicorp/go-cleanhttp v0.5.2 // indirect
	github.com/hashicorp/go-getter v1.7.5 // indirect
	github.com/hashicorp/go-hclog v1.5.0 // indirect
	github.com/hashicorp/go-immutable-radix v1.3.1 // indirect
	github.com/hashicorp/go-metrics v0.5.3 // indirect
	github.com/hashicorp/go-plugin v1.5.2 // indirect
	github.com/hashicorp/go-safetemp v1.0.0 // indirect
	github.com/hashicorp/go-version v1.6.0 // indirect
	github.com/hashicorp/golang-lru v1.0.2 // indirect
	github.com/hashicorp/golang-lru/v2 v2.0.7 // indirect
	github.com/hashicorp/hcl v1.0.0 // indirect
	github.com/hashicorp/yamux v0.1.1 // indirect
	github.com/hdevalence/ed25519consensus v0.1.0 // indirect
	github.com/holiman/uint256 v1.3.1 // indirect
	github.com/huandu/skiplist v1.2.0 // indirect
	github.com/iancoleman/strcase v0.3.0 // indirect
	github.com/improbable-eng/grpc-web v0.15.0 // indirect
	github.com/inconshreveable/mousetrap v1.1.0 // indirect
	github.com/jmespath/go-jmespath v0.4.0 // indirect
	github.com/jmhodges/levigo v1.0.0 // indirect
	github.com/klauspost/compress v1.17.9 // indirect
	github.com/kr/pretty v0.3.1 // indirect
	github.com/kr/text v0.2.0 // indirect
	github.com/kyokomi/emoji v2.2.4+incompatible
	github.com/levigross/grequests v0.0.0-20231203190023-9c307ef1f48d
	github.com/lib/pq v1.10.7 // indirect
	github.com/linxGnu/grocksdb v1.8.14 // indirect
	github.com/magiconair/properties v1.8.7 // indirect
	github.com/manifoldco/promptui v0.9.0 // indirect
	github.com/mattn/go-colorable v0.1.13 // indirect
	github.com/mattn/go-isatty v0.0.20 // indirect
	github.com/minio/highwayhash v1.0.2 // indirect
	github.com/mitchellh/go-homedir v1.1.0 // indirect
	github.com/mitchellh/go-testing-interface v1.14.1 // indirect
	github.com/mitchellh/mapstructure v1.5.0
	github.com/mtibben/percent v0.2.1 // indirect
	github.com/munnerz/goautoneg v0.0.0-20191010083416-a7dc8b61c822 // indirect
	github.com/oasisprotocol/curve25519-voi v0.0.0-20230904125328-1f23a7beb09a // indirect
	github.com/oasisprotocol/oasis-core/go v0.2202.7
	github.com/oklog/run v1.1.0 // indirect
	github.com/pelletier/go-toml/v2 v2.2.2 // indirect
	github.com/peterbourgon/diskv v2.0.1+incompatible
	github.com/petermattis/goid v0.0.0-20231207134359-e60b3f734c67 // indirect
	github.com/pkg/errors v0.9.1 // indirect
	github.com/pmezard/go-difflib v1.0.1-0.20181226105442-5d4384ee4fb2 // indirect
	github.com/prometheus/client_golang v1.20.5
	github.com/prometheus/client_model v0.6.1 // indirect
	github.com/prometheus/common v0.55.0 // indirect
	github.com/prometheus/procfs v0.15.1 // indirect
	github.com/rcrowley/go-metrics v0.0.0-20201227073835-cf1acfcdf475 // indirect
	github.com/rogpeppe/go-internal v1.12.0 // indirect
	github.com/rs/cors v1.11.1 // indirect
	github.com/rs/zerolog v1.33.0 // indirect
	github.com/sagikazarmark/locafero v0.4.0 // indirect
	github.com/sagikazarmark/slog-shim v0.1.0 // indirect
	github.com/sasha-s/go-deadlock v0.3.1 // indirect
	github.com/sourcegraph/conc v0.3.0 // indirect
	github.com/spf13/afero v1.11.0 // indirect
	github.com/spf13/cast v1.7.0
	github.com/spf13/cobra v1.8.1
	github.com/spf13/pflag v1.0.5 // indirect
	github.com/spf13/viper v1.19.0
	github.com/stretchr/testify v1.10.0
	github.com/subosito/gotenv v1.6.0 // indirect
	github.com/syndtr/goleveldb v1.0.1-0.20220721030215-126854af5e6d // indirect
	github.com/tendermint/go-amino v0.16.0 // indirect
	github.com/tidwall/btree v1.7.0 // indirect
	github.com/ulikunitz/xz v0.5.11 // indirect
	github.com/zondax/hid v0.9.2 // indirect
	github.com/zondax/ledger-go v0.14.3 // indirect
	go.etcd.io/bbolt v1.3.10 // indirect
	go.opencensus.io v0.24.0 // indirect
	go.opentelemetry.io/contrib/instrumentation/google.golang.org/grpc/otelgrpc v0.49.0 // indirect
	go.opentelemetry.io/contrib/instrumentation/net/http/otelhttp v0.49.0 // indirect
	go.opentelemetry.io/otel v1.24.0 // indirect
	go.opentelemetry.io/otel/metric v1.24.0 // indirect
	go.opentelemetry.io/otel/trace v1.24.0 // indirect
	go.uber.org/mock v0.5.0
	go.uber.org/multierr v1.11.0 // indirect
	golang.org/x/crypto v0.26.0
	golang.org/x/exp v0.0.0-20240613232115-7f521ea00fb8 // indirect
	golang.org/x/net v0.28.0 // indirect
	golang.org/x/oauth2 v0.22.0 // indirect
	golang.org/x/sync v0.8.0 // indirect
	golang.org/x/sys v0.24.0 // indirect
	golang.org/x/term v0.23.0 // indirect
	golang.org/x/text v0.17.0 // indirect
	golang.org/x/time v0.5.0 // indirect
	google.golang.org/api v0.186.0 // indirect
	google.golang.org/genproto v0.0.0-20240701130421-f6361c86f094 // indirect
	google.golang.org/genproto/googleapis/api v0.0.0-20241021214115-324edc3d5d38
	google.golang.org/genproto/googleapis/rpc v0.0.0-20241015192408-796eee8c2d53 // indirect
	google.golang.org/grpc v1.67.1
	google.golang.org/protobuf v1.35.1
	gopkg.in/ini.v1 v1.67.0 // indirect
	gopkg.in/yaml.v2 v2.4.0 // indirect
	gopkg.in/yaml.v3 v3.0.1 // indirect
	gotest.tools/v3 v3.5.1 // indirect
	nhooyr.io/websocket v1.8.6 // indirect
	sigs.k8s.io/yaml v1.4.0 // indirect
)

replace github.com/bandprotocol/chain/v3 => /repo

replace (
	github.com/99designs/keyring => github.com/cosmos/keyring v1.2.0
	github.com/dgrijalva/jwt-go => github.com/golang-jwt/jwt/v4 v4.4.2
	github.com/gin-gonic/gin => github.com/gin-gonic/gin v1.9.1
	github.com/syndtr/goleveldb => github.com/syndtr/goleveldb v1.0.1-0.20210819022825-2ae1ddf74ef7
)
