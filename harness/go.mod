module verif/harness

go 1.23

toolchain go1.23.5

require (
	github.com/bandprotocol/chain/v3 v3.0.0
	pgregory.net/rapid v1.3.0
)

require github.com/oasisprotocol/oasis-core/go v0.2202.7 // indirect

replace github.com/bandprotocol/chain/v3 => /repo

replace (
	github.com/99designs/keyring => github.com/cosmos/keyring v1.2.0
	github.com/dgrijalva/jwt-go => github.com/golang-jwt/jwt/v4 v4.4.2
	github.com/gin-gonic/gin => github.com/gin-gonic/gin v1.9.1
	github.com/syndtr/goleveldb => github.com/syndtr/goleveldb v1.0.1-0.20210819022825-2ae1ddf74ef7
)
