// Package c07 checks property C07 of bandprotocol/chain:
//
//	"Votes never exceed voter power; signal totals and current feeds follow votes."
//
// Stateful property-based test on the real application (sim.New). The oracle is a big.Int model written from
// the property statement and x/feeds/README.md; it never calls SumPower / CalculateInterval /
// CalculateNewCurrentFeeds / SignalTotalPowerByPowerIndexKey of the code under test.
package c07

import (
	"encoding/binary"
	"fmt"
	"math/big"
	"os"
	"sort"
	"strings"
	"testing"
	"time"

	"pgregory.net/rapid"

	sdkmath "cosmossdk.io/math"
	storetypes "cosmossdk.io/store/types"

	sdk "github.com/cosmos/cosmos-sdk/types"
	govv1 "github.com/cosmos/cosmos-sdk/x/gov/types/v1"
	stakingtypes "github.com/cosmos/cosmos-sdk/x/staking/types"

	feedstypes "github.com/bandprotocol/chain/v3/x/feeds/types"
	restaketypes "github.com/bandprotocol/chain/v3/x/restake/types"

	"verif/harness/gen"
	"verif/harness/pbt"
	"verif/harness/sim"
)

// ---- case ----------------------------------------------------------------------------------------------------

// c07Num is a symbolic number that is resolved against the model when the operation is built (late binding).
//
//	abs  : V
//	thr  : PowerStepThreshold*V + D
//	rem  : (voter power - powers already listed in this vote) + D        (vote signals only)
//	frac : voter power * V / 4                                           (vote signals only)
//	pow  : voter power + D                                               (wrap target only)
//	all  : current holding (delegation to that validator / stake of that denom) + D
//	edge : (voter power - locked power) + D        -> D=+1 would leave the voter 1 below the lock
//	lck  : (voter's locked power - powers already listed in this vote) + D   (vote signals only; meaningful when
//	       a governance change of the restake AllowedDenoms has pushed the voter's power below its lock)
//	p62  : 2^62 + D ; p63 : 2^63 + D
type c07Num struct {
	K string `json:"k"`
	V int64  `json:"v,omitempty"`
	D int64  `json:"d,omitempty"`
}

type c07Sig struct {
	ID int    `json:"id"` // index into the id alphabet
	P  c07Num `json:"p"`
}

type c07Op struct {
	Kind  string   `json:"k"` // vote | delegate | undelegate | stake | unstake | denoms | fparams | reimport | end
	Voter int      `json:"voter,omitempty"`
	Sigs  []c07Sig `json:"sigs,omitempty"`
	Wrap  int      `json:"wrap,omitempty"`  // 0 plain; 3: {2^63-1, 2^63-1, 2+t}; 4: {2^62, 2^62, 2^62, 2^62+t}  (int64 sum == t)
	WrapT *c07Num  `json:"wrapt,omitempty"` // t
	Base  int      `json:"base,omitempty"`  // first id of a wrap vote
	// Same != 0: late-bound against the voter's standing vote (falls back to Sigs when there is none):
	//   1 re-submit the identical vote; 2 same total redistributed over the same ids; 3 same total redistributed
	//   over Parts consecutive ids starting at Base. Weights gives the shares of the redistribution.
	Same    int     `json:"same,omitempty"`
	Parts   int     `json:"parts,omitempty"`
	Weights []int   `json:"weights,omitempty"`
	Val     int     `json:"val,omitempty"`
	Denom   int     `json:"denom,omitempty"` // 0 uband, 1 ualt
	Amt     *c07Num `json:"amt,omitempty"`
	Set     int     `json:"set,omitempty"` // denoms: index into c07DenomSets (new x/restake AllowedDenoms, through governance)
	// fparams: one x/feeds parameter changed through governance. Par in maxfeeds|thr|minint|maxint|updint; the new
	// value is PV, or (PRel) the value in force + PV.
	Par  string `json:"par,omitempty"`
	PV   int64  `json:"pv,omitempty"`
	PRel bool   `json:"prel,omitempty"`
	N    int    `json:"n,omitempty"`  // end: number of blocks
	Dt   int    `json:"dt,omitempty"` // end: seconds per block
}

type c07Case struct {
	NoWrap         bool    `json:"nowrap"` // vote powers are kept inside int64 (region of the known SumPower wrap excluded)
	NVoters        int     `json:"nvoters"`
	NVals          int     `json:"nvals"`
	Rich           bool    `json:"rich"` // voters own ~2^64 of a second allowed denom (18-decimals style token)
	AltAllowed     bool    `json:"alt_allowed"`
	K              int     `json:"k"` // size of the signal id alphabet used by plain votes
	Threshold      int64   `json:"threshold"`
	MinInterval    int64   `json:"min_interval"`
	MaxInterval    int64   `json:"max_interval"`
	MaxFeeds       int     `json:"max_feeds"`
	UpdateInterval int     `json:"update_interval"`
	Ops            []c07Op `json:"ops"`
}

// ids of different lengths: the by-power index orders equal powers by (length, bytes).
var c07IDs = []string{"A", "B", "AA", "C", "AB", "b", "BTC", "ZZZZ"}

var c07Denoms = []string{"uband", "ualt"}

// values of x/restake Params.AllowedDenoms the "denoms" op can install through a governance proposal
var c07DenomSets = [][]string{{"uband"}, {"uband", "ualt"}, {"ualt"}, {}}

func c07NoWrapMode() bool {
	return os.Getenv("VERIF_C07_NOWRAP") == "1" || pbt.IsExcluded("C07", "C07/vote-sum-wrap")
}

func genC07(rt *rapid.T) c07Case {
	c := c07Case{NoWrap: c07NoWrapMode()}
	c.NVoters = rapid.IntRange(2, 5).Draw(rt, "nvoters")
	c.NVals = rapid.IntRange(1, 3).Draw(rt, "nvals")
	c.Rich = gen.Chance(rt, "rich", 1, 4)
	c.AltAllowed = c.Rich || gen.Chance(rt, "alt", 1, 2)
	if c.Rich {
		c.K = gen.Range(rt, "k", 2, 4)
		c.Threshold = gen.OneOf[int64](rt, "thr", 1, 1_000_000, 1<<60, 1<<62)
	} else {
		c.K = gen.Range(rt, "k", 2, len(c07IDs))
		c.Threshold = gen.OneOf[int64](rt, "thr", 1, 1, 2, 3, 5, 10, 1000, 1_000_000)
	}
	c.MinInterval = gen.OneOf[int64](rt, "minint", 1, 2, 10, 60)
	c.MaxInterval = gen.OneOf[int64](rt, "maxint", 1, 7, 60, 100, 3600)
	c.MaxFeeds = gen.Range(rt, "maxfeeds", 1, 5)
	c.UpdateInterval = gen.Range(rt, "updint", 1, 5)

	smallAmt := func() *c07Num {
		switch gen.Pick(rt, "amtk", 4, 4, 1) {
		case 0:
			return &c07Num{K: "abs", V: int64(gen.Range(rt, "amtv", 1, 20))}
		case 1:
			return &c07Num{K: "thr", V: int64(gen.Range(rt, "amtm", 1, 12)), D: int64(gen.Range(rt, "amtd", -1, 1))}
		default:
			return &c07Num{K: "abs", V: 1_000_000}
		}
	}
	bigAmt := func() *c07Num {
		switch gen.Pick(rt, "bigk", 5, 3, 2) {
		case 0:
			return &c07Num{K: "p62", D: int64(gen.Range(rt, "bigd", -1, 2))}
		case 1:
			return &c07Num{K: "p63", D: int64(gen.Range(rt, "bigd", -1, 1))}
		default:
			return smallAmt()
		}
	}
	genPower := func(last bool) c07Num {
		w := []int{25, 25, 22, 10, 8, 2, 4}
		if c.Rich {
			w = []int{10, 15, 22, 15, 36, 2, 4}
		}
		k := gen.Pick(rt, "pk", w...)
		if last && gen.Chance(rt, "lastrem", 1, 3) {
			k = 2
		}
		switch k {
		case 0:
			return c07Num{K: "abs", V: int64(gen.Range(rt, "pv", 1, 5))}
		case 1:
			return c07Num{K: "thr", V: int64(gen.Range(rt, "pm", 1, 4)), D: int64(gen.Range(rt, "pd", -1, 1))}
		case 2:
			return c07Num{K: "rem", D: gen.OneOf[int64](rt, "remd", -1, 0, 0, 1)}
		case 3:
			return c07Num{K: "frac", V: int64(gen.Range(rt, "fr", 1, 3))}
		case 4:
			return c07Num{K: "abs", V: gen.OneOf[int64](rt, "huge", 1<<62, 1<<62, 1<<62-1, 1<<62+1, 1<<61, 1<<63-1)}
		case 6:
			return c07Num{K: "lck", D: gen.OneOf[int64](rt, "lckd", -1, 0, 0, 1)}
		default:
			return c07Num{K: "abs", V: gen.OneOf[int64](rt, "nonpos", 0, -1)}
		}
	}
	genVote := func() c07Op {
		o := c07Op{Kind: "vote", Voter: gen.Uniform(rt, "voter", c.NVoters)}
		wWrap := 22
		if c.NoWrap {
			wWrap = 0
		}
		shape := gen.Pick(rt, "shape", 52, 6, wWrap, 12, 10)
		if shape == 4 { // same total as my standing vote (identical / redistributed); plain signals are the fallback
			o.Same = gen.OneOf(rt, "same", 1, 2, 2, 3, 3)
			o.Parts = 1 + gen.Uniform(rt, "parts", c.MaxFeeds)
			o.Base = gen.Uniform(rt, "sbase", c.K)
			for i := 0; i < c.MaxFeeds; i++ {
				o.Weights = append(o.Weights, gen.Range(rt, "wgt", 0, 4))
			}
			shape = 0
		}
		switch shape {
		case 1: // empty vote
			return o
		case 3: // equal powers (a multiple of the threshold) on consecutive ids: ties and many eligible signals
			n := 1 + gen.Uniform(rt, "eqn", c.MaxFeeds)
			start := gen.Uniform(rt, "eqstart", c.K)
			mult := int64(gen.Range(rt, "eqmult", 1, 3))
			for i := 0; i < n; i++ {
				o.Sigs = append(o.Sigs, c07Sig{ID: (start + i) % c.K, P: c07Num{K: "thr", V: mult}})
			}
			return o
		case 2: // true sum = 2^64 + t, int64 sum = t
			o.Wrap = gen.OneOf(rt, "wrapn", 3, 4, 4)
			o.Base = gen.Uniform(rt, "base", len(c07IDs))
			switch gen.Pick(rt, "wt", 4, 3, 4) {
			case 0:
				o.WrapT = &c07Num{K: "abs", V: 0}
			case 1:
				o.WrapT = &c07Num{K: "abs", V: int64(gen.Range(rt, "wtv", 1, 3))}
			default:
				o.WrapT = &c07Num{K: "pow", D: gen.OneOf[int64](rt, "wtd", -1, 0, 0, 1)}
			}
			return o
		}
		// 1..MaxFeeds signals mostly, MaxFeeds+1 (one too many) sometimes
		n := 1 + gen.Uniform(rt, "nsig", c.MaxFeeds)
		if gen.Chance(rt, "toomany", 1, 12) {
			n = c.MaxFeeds + 1
		}
		allowDup := gen.Chance(rt, "dup", 1, 14)
		used := map[int]bool{}
		for i := 0; i < n; i++ {
			id := gen.Uniform(rt, "id", c.K)
			if !allowDup {
				for j := 0; j < c.K && used[id]; j++ {
					id = (id + 1) % c.K
				}
			}
			used[id] = true
			o.Sigs = append(o.Sigs, c07Sig{ID: id, P: genPower(i == n-1)})
		}
		return o
	}

	// constructed scenario (ordinary ops, so it shrinks like the rest): give a voter a delegation and a stake, vote
	// with sum == power (or a fraction), re-vote the same total redistributed / identically, then withdraw so that
	// power would end exactly 1 below the lock or far below it, then end the block.
	// the generator's idea of the allowed denoms (exact as long as every proposal passes; only used to aim ops)
	bandNow, altNow := true, c.AltAllowed
	denomsOp := func(set int) {
		c.Ops = append(c.Ops, c07Op{Kind: "denoms", Set: set})
		bandNow, altNow = set == 0 || set == 1, set == 1 || set == 2
	}
	genDenoms := func() {
		switch gen.Pick(rt, "dset", 7, 2, 1) {
		case 0: // toggle ualt, uband stays (becomes) allowed
			if altNow && bandNow {
				denomsOp(0)
			} else {
				denomsOp(1)
			}
		case 1:
			if altNow && !bandNow {
				denomsOp(1)
			} else {
				denomsOp(2)
			}
		default:
			if !altNow && !bandNow {
				denomsOp(1)
			} else {
				denomsOp(3)
			}
		}
	}

	// constructed scenario 2: power falls below the lock through a path the restake hooks do not guard. Stake ualt
	// while it is allowed, vote with sum == power, governance removes ualt from AllowedDenoms (power drops, the lock
	// stays), then re-vote with the same total (identical / redistributed) or with a total in (power, lock]: the
	// re-vote exceeds the voter's current power.
	genScenarioDenoms := func() {
		voter := gen.Uniform(rt, "sdvoter", c.NVoters)
		end := func(p int) {
			if gen.Chance(rt, "sdend", p, 10) {
				c.Ops = append(c.Ops, c07Op{Kind: "end", N: 1, Dt: 1})
			}
		}
		if !altNow {
			denomsOp(1)
		}
		if gen.Chance(rt, "sddel", 1, 2) {
			c.Ops = append(c.Ops, c07Op{Kind: "delegate", Voter: voter, Val: gen.Uniform(rt, "sdval", c.NVals), Amt: smallAmt()})
		}
		amt := smallAmt()
		if c.Rich && gen.Chance(rt, "sdbig", 1, 2) {
			amt = bigAmt()
		}
		c.Ops = append(c.Ops, c07Op{Kind: "stake", Voter: voter, Denom: 1, Amt: amt})
		end(8)
		first := c07Op{Kind: "vote", Voter: voter}
		n := 1 + gen.Uniform(rt, "sdn", c.MaxFeeds)
		start := gen.Uniform(rt, "sdstart", c.K)
		for i := 0; i < n; i++ {
			p := c07Num{K: "abs", V: int64(gen.Range(rt, "sdp", 1, 3))}
			if i == n-1 {
				p = gen.OneOf(rt, "sdlast", c07Num{K: "rem"}, c07Num{K: "rem"}, c07Num{K: "rem"}, c07Num{K: "rem", D: -1}, c07Num{K: "frac", V: 3})
			}
			first.Sigs = append(first.Sigs, c07Sig{ID: (start + i) % c.K, P: p})
		}
		c.Ops = append(c.Ops, first)
		end(8)
		if bandNow && gen.Chance(rt, "sdnone", 1, 5) {
			denomsOp(3)
		} else {
			denomsOp(0)
		}
		if gen.Chance(rt, "sdreimp", 1, 4) {
			c.Ops = append(c.Ops, c07Op{Kind: "reimport"}) // round trip while the power is below the lock
		}
		re := c07Op{Kind: "vote", Voter: voter}
		if gen.Chance(rt, "sdsame", 3, 4) {
			re.Same = gen.OneOf(rt, "sdsamek", 1, 2, 3, 3)
			re.Parts = 1 + gen.Uniform(rt, "sdparts", c.MaxFeeds)
			re.Base = gen.Uniform(rt, "sdbase", c.K)
			re.Sigs = first.Sigs
			for i := 0; i < c.MaxFeeds; i++ {
				re.Weights = append(re.Weights, gen.Range(rt, "sdwgt", 0, 4))
			}
		} else {
			// total == lock + D on fresh ids
			base := gen.Uniform(rt, "sdlbase", c.K)
			if c.MaxFeeds >= 2 && gen.Chance(rt, "sdtwo", 1, 2) {
				re.Sigs = append(re.Sigs, c07Sig{ID: base, P: c07Num{K: "abs", V: int64(gen.Range(rt, "sdlp", 1, 3))}})
			}
			re.Sigs = append(re.Sigs, c07Sig{ID: (base + 1) % c.K, P: c07Num{K: "lck", D: gen.OneOf[int64](rt, "sdld", -1, -1, 0, -2)}})
		}
		c.Ops = append(c.Ops, re)
		c.Ops = append(c.Ops, c07Op{Kind: "end", N: 1, Dt: 1})
		switch gen.Pick(rt, "sdtail", 3, 2, 2, 2) {
		case 1: // a withdrawal while the power is below the lock
			c.Ops = append(c.Ops, c07Op{Kind: "unstake", Voter: voter, Denom: gen.Pick(rt, "sdud", 1, 2), Amt: gen.OneOf(rt, "sdua", &c07Num{K: "all"}, &c07Num{K: "abs", V: 1})})
			c.Ops = append(c.Ops, c07Op{Kind: "end", N: 1, Dt: 1})
		case 2: // the denom comes back: power is restored, the identical re-vote is affordable again
			denomsOp(1)
			c.Ops = append(c.Ops, c07Op{Kind: "vote", Voter: voter, Same: 1, Sigs: first.Sigs})
			c.Ops = append(c.Ops, c07Op{Kind: "end", N: 1, Dt: 1})
		case 3: // a second re-vote, now within the reduced power
			c.Ops = append(c.Ops, c07Op{Kind: "vote", Voter: voter, Sigs: []c07Sig{{ID: start, P: c07Num{K: "rem", D: gen.OneOf[int64](rt, "sdrd", 0, 0, 1, -1)}}}})
			c.Ops = append(c.Ops, c07Op{Kind: "end", N: 1, Dt: 1})
		}
	}

	genFeedsParams := func() {
		o := c07Op{Kind: "fparams"}
		switch gen.Pick(rt, "fpk", 6, 2, 1, 1, 2) {
		case 0:
			o.Par = "maxfeeds"
			switch gen.Pick(rt, "fpmf", 1, 2, 2, 2, 2, 2) {
			case 0:
				o.PV = 0
			case 1:
				o.PV = 1
			case 2:
				o.PV = 2
			case 3:
				o.PV, o.PRel = -1, true
			case 4:
				o.PV, o.PRel = 1, true
			default:
				o.PV = 5
			}
		case 1:
			o.Par = "thr"
			if c.Rich {
				o.PV = gen.OneOf[int64](rt, "fpthr", 1, 1_000_000, 1<<60, 1<<62)
			} else {
				o.PV = gen.OneOf[int64](rt, "fpthr", 1, 2, 3, 5, 10, 1000, 1_000_000)
			}
		case 2:
			o.Par, o.PV = "minint", gen.OneOf[int64](rt, "fpmin", 1, 2, 10, 60)
		case 3:
			o.Par, o.PV = "maxint", gen.OneOf[int64](rt, "fpmax", 1, 7, 60, 100, 3600)
		default:
			o.Par, o.PV = "updint", int64(gen.Range(rt, "fpupd", 1, 5))
		}
		c.Ops = append(c.Ops, o)
	}

	// constructed scenario 3: votes establish (at least) two eligible signals, governance lowers MaxCurrentFeeds to 0
	// or 1, the chain runs across an update block (optionally through a genesis re-import), a vote is tried under the
	// lowered maximum, then the maximum is raised again and another update block passes.
	genScenarioFeedsParams := func() {
		v1 := gen.Uniform(rt, "sfv1", c.NVoters)
		v2 := (v1 + 1) % c.NVoters
		id1 := gen.Uniform(rt, "sfid", c.K)
		id2 := (id1 + 1) % c.K
		for _, vv := range []int{v1, v2} {
			amt := &c07Num{K: "thr", V: int64(gen.Range(rt, "sfamt", 2, 6))}
			if c.Rich {
				if !altNow {
					denomsOp(1)
				}
				c.Ops = append(c.Ops, c07Op{Kind: "stake", Voter: vv, Denom: 1, Amt: amt})
			} else {
				c.Ops = append(c.Ops, c07Op{Kind: "delegate", Voter: vv, Val: gen.Uniform(rt, "sfval", c.NVals), Amt: amt})
			}
		}
		c.Ops = append(c.Ops, c07Op{Kind: "end", N: 1, Dt: 1})
		c.Ops = append(c.Ops, c07Op{Kind: "vote", Voter: v1, Sigs: []c07Sig{{ID: id1, P: c07Num{K: "thr", V: int64(gen.Range(rt, "sfp1", 1, 2))}}}})
		c.Ops = append(c.Ops, c07Op{Kind: "vote", Voter: v2, Sigs: []c07Sig{{ID: id2, P: c07Num{K: "thr", V: int64(gen.Range(rt, "sfp2", 1, 2)), D: gen.OneOf[int64](rt, "sfd2", 0, 0, 1)}}}})
		c.Ops = append(c.Ops, c07Op{Kind: "end", N: gen.Range(rt, "sfn0", 1, 5), Dt: 1})
		c.Ops = append(c.Ops, c07Op{Kind: "fparams", Par: "maxfeeds", PV: gen.OneOf[int64](rt, "sflow", 0, 0, 0, 1, 1)})
		if gen.Chance(rt, "sfreimp0", 1, 5) {
			c.Ops = append(c.Ops, c07Op{Kind: "reimport"}) // the import recomputes the list under the lowered maximum
		}
		c.Ops = append(c.Ops, c07Op{Kind: "end", N: 5, Dt: 1}) // crosses an update block whatever the interval (<= 5)
		if gen.Chance(rt, "sfreimp1", 1, 4) {
			c.Ops = append(c.Ops, c07Op{Kind: "reimport"})
		}
		if gen.Chance(rt, "sfvote", 1, 2) {
			c.Ops = append(c.Ops, c07Op{Kind: "vote", Voter: v1, Sigs: []c07Sig{{ID: id1, P: c07Num{K: "thr", V: 1}}, {ID: id2, P: c07Num{K: "abs", V: 1}}}})
			c.Ops = append(c.Ops, c07Op{Kind: "end", N: 1, Dt: 1})
		}
		if gen.Chance(rt, "sfrel", 1, 2) {
			c.Ops = append(c.Ops, c07Op{Kind: "fparams", Par: "maxfeeds", PV: 1, PRel: true})
		} else {
			c.Ops = append(c.Ops, c07Op{Kind: "fparams", Par: "maxfeeds", PV: gen.OneOf[int64](rt, "sfhigh", 2, 5, int64(c.MaxFeeds))})
		}
		c.Ops = append(c.Ops, c07Op{Kind: "end", N: 5, Dt: 1})
	}

	// constructed scenario 4 (rich voters): a lock of 2^63 or more. Stake about 2^63 of the 18-decimals token, vote
	// with individually valid int64 powers whose true sum equals the power (>= 2^63, fits the 8-byte index key only
	// as an unsigned number), then try to withdraw below the lock.
	genScenarioHugeLock := func() {
		voter := gen.Uniform(rt, "shvoter", c.NVoters)
		if !altNow {
			denomsOp(1)
		}
		c.Ops = append(c.Ops, c07Op{Kind: "stake", Voter: voter, Denom: 1, Amt: &c07Num{K: "p63", D: gen.OneOf[int64](rt, "shd", 0, 0, 1, 2, -1)}})
		if gen.Chance(rt, "shmore", 1, 3) {
			c.Ops = append(c.Ops, c07Op{Kind: "stake", Voter: voter, Denom: 1, Amt: &c07Num{K: "p62", D: int64(gen.Range(rt, "shd2", -1, 1))}})
		}
		c.Ops = append(c.Ops, c07Op{Kind: "end", N: 1, Dt: 1})
		vote := c07Op{Kind: "vote", Voter: voter}
		start := gen.Uniform(rt, "shstart", c.K)
		last := c07Num{K: "rem", D: gen.OneOf[int64](rt, "shrem", 0, 0, -1)}
		if c.MaxFeeds >= 3 && c.K >= 3 && gen.Chance(rt, "sh3", 1, 2) {
			vote.Sigs = []c07Sig{{ID: start, P: c07Num{K: "abs", V: 1 << 62}}, {ID: (start + 1) % c.K, P: c07Num{K: "abs", V: 1 << 62}}, {ID: (start + 2) % c.K, P: last}}
		} else {
			vote.Sigs = []c07Sig{{ID: start, P: c07Num{K: "abs", V: 1<<63 - 1}}, {ID: (start + 1) % c.K, P: last}}
		}
		c.Ops = append(c.Ops, vote)
		c.Ops = append(c.Ops, c07Op{Kind: "end", N: 1, Dt: 1})
		if gen.Chance(rt, "shreimp", 1, 5) {
			c.Ops = append(c.Ops, c07Op{Kind: "reimport"})
		}
		amt := gen.OneOf(rt, "shamt", &c07Num{K: "edge", D: 1}, &c07Num{K: "edge", D: 1}, &c07Num{K: "all"}, &c07Num{K: "abs", V: 1}, &c07Num{K: "edge", D: 0})
		c.Ops = append(c.Ops, c07Op{Kind: "unstake", Voter: voter, Denom: 1, Amt: amt})
		c.Ops = append(c.Ops, c07Op{Kind: "end", N: 1, Dt: 1})
	}

	genScenario := func() {
		wHuge := 0
		if c.Rich && c.MaxFeeds >= 2 && !c.NoWrap {
			wHuge = 6
		}
		switch gen.Pick(rt, "sckind", 3, 2, 2, wHuge) {
		case 1:
			genScenarioDenoms()
			return
		case 2:
			genScenarioFeedsParams()
			return
		case 3:
			genScenarioHugeLock()
			return
		}
		voter := gen.Uniform(rt, "scvoter", c.NVoters)
		val := gen.Uniform(rt, "scval", c.NVals)
		end := func(p int) {
			if gen.Chance(rt, "scend", p, 10) {
				c.Ops = append(c.Ops, c07Op{Kind: "end", N: 1, Dt: 1})
			}
		}
		c.Ops = append(c.Ops, c07Op{Kind: "delegate", Voter: voter, Val: val, Amt: smallAmt()})
		c.Ops = append(c.Ops, c07Op{Kind: "stake", Voter: voter, Denom: 0, Amt: smallAmt()})
		end(9)
		first := c07Op{Kind: "vote", Voter: voter}
		n := 1 + gen.Uniform(rt, "scn", c.MaxFeeds)
		start := gen.Uniform(rt, "scstart", c.K)
		for i := 0; i < n; i++ {
			p := c07Num{K: "abs", V: int64(gen.Range(rt, "scp", 1, 3))}
			if i == n-1 {
				p = gen.OneOf(rt, "sclast", c07Num{K: "rem"}, c07Num{K: "rem"}, c07Num{K: "rem", D: -1}, c07Num{K: "frac", V: 2}, c07Num{K: "frac", V: 3})
			}
			first.Sigs = append(first.Sigs, c07Sig{ID: (start + i) % c.K, P: p})
		}
		c.Ops = append(c.Ops, first)
		end(9)
		reimportAt := gen.Pick(rt, "screimp", 6, 1, 2) // 0 none, 1 between vote and re-vote, 2 between re-vote and withdrawal
		if reimportAt == 1 {
			c.Ops = append(c.Ops, c07Op{Kind: "reimport"})
		}
		re := c07Op{Kind: "vote", Voter: voter, Same: gen.OneOf(rt, "scsame", 1, 2, 3, 3), Parts: 1 + gen.Uniform(rt, "scparts", c.MaxFeeds),
			Base: gen.Uniform(rt, "scbase", c.K), Sigs: first.Sigs}
		for i := 0; i < c.MaxFeeds; i++ {
			re.Weights = append(re.Weights, gen.Range(rt, "scwgt", 0, 4))
		}
		c.Ops = append(c.Ops, re)
		end(9)
		if reimportAt == 2 {
			c.Ops = append(c.Ops, c07Op{Kind: "reimport"})
		}
		amt := gen.OneOf(rt, "scamt", &c07Num{K: "edge", D: 1}, &c07Num{K: "edge", D: 1}, &c07Num{K: "all"}, &c07Num{K: "edge", D: 0}, &c07Num{K: "edge", D: 2})
		if gen.Chance(rt, "scund", 1, 2) {
			c.Ops = append(c.Ops, c07Op{Kind: "undelegate", Voter: voter, Val: val, Amt: amt})
		} else {
			c.Ops = append(c.Ops, c07Op{Kind: "unstake", Voter: voter, Denom: 0, Amt: amt})
		}
		c.Ops = append(c.Ops, c07Op{Kind: "end", N: 1, Dt: 1})
	}

	nops := rapid.IntRange(8, 45).Draw(rt, "nops")
	for i := 0; i < nops; i++ {
		w := gen.Uniform(rt, "opw", 100)
		if i >= c.NVoters && gen.Chance(rt, "scenario", 1, 16) {
			genScenario()
			i += 5
			continue
		}
		if i < c.NVoters {
			w = 46 + gen.Uniform(rt, "initw", 2)*22 // the history starts by giving voters some power
		}
		isTx := true
		switch {
		case w < 46:
			c.Ops = append(c.Ops, genVote())
		case w < 58:
			o := c07Op{Kind: "delegate", Voter: gen.Uniform(rt, "voter", c.NVoters), Val: gen.Uniform(rt, "val", c.NVals), Amt: smallAmt()}
			if i < c.NVoters {
				o.Voter = i
			}
			c.Ops = append(c.Ops, o)
		case w < 67:
			o := c07Op{Kind: "undelegate", Voter: gen.Uniform(rt, "voter", c.NVoters), Val: gen.Uniform(rt, "val", c.NVals)}
			switch gen.Pick(rt, "uk", 3, 4, 3) {
			case 0:
				o.Amt = &c07Num{K: "all", D: gen.OneOf[int64](rt, "ud", -1, 0, 0)}
			case 1:
				o.Amt = &c07Num{K: "edge", D: int64(gen.Range(rt, "ud", -1, 1))}
			default:
				o.Amt = smallAmt()
			}
			c.Ops = append(c.Ops, o)
		case w < 77:
			o := c07Op{Kind: "stake", Voter: gen.Uniform(rt, "voter", c.NVoters), Denom: gen.Pick(rt, "denom", 6, 4)}
			if i < c.NVoters {
				o.Voter = i
			}
			if c.Rich {
				o.Denom = gen.Pick(rt, "denomr", 2, 8)
			}
			if c.Rich && o.Denom == 1 {
				o.Amt = bigAmt()
			} else {
				o.Amt = smallAmt()
			}
			c.Ops = append(c.Ops, o)
		case w < 85:
			o := c07Op{Kind: "unstake", Voter: gen.Uniform(rt, "voter", c.NVoters), Denom: gen.Pick(rt, "denom", 6, 4)}
			if c.Rich {
				o.Denom = gen.Pick(rt, "denomr", 2, 8)
			}
			switch gen.Pick(rt, "uk", 3, 4, 3) {
			case 0:
				o.Amt = &c07Num{K: "all", D: gen.OneOf[int64](rt, "ud", -1, 0, 0)}
			case 1:
				o.Amt = &c07Num{K: "edge", D: int64(gen.Range(rt, "ud", -1, 1))}
			default:
				if c.Rich && o.Denom == 1 {
					o.Amt = bigAmt()
				} else {
					o.Amt = smallAmt()
				}
			}
			c.Ops = append(c.Ops, o)
		case w < 88:
			isTx = false
			genDenoms()
		case w < 91:
			isTx = false
			genFeedsParams()
		case w < 94:
			// genesis export -> new application instance initialised from the exported document
			isTx = false
			c.Ops = append(c.Ops, c07Op{Kind: "reimport"})
		default:
			isTx = false
			c.Ops = append(c.Ops, c07Op{Kind: "end", N: gen.Range(rt, "nblk", 1, c.UpdateInterval+1), Dt: gen.OneOf(rt, "dt", 1, 1, 3, 40)})
		}
		if isTx && gen.Chance(rt, "endafter", 6, 10) {
			c.Ops = append(c.Ops, c07Op{Kind: "end", N: 1, Dt: 1})
		}
	}
	return c
}

// ---- reference model (written from the statement and x/feeds/README.md) -----------------------------------------

var (
	c07MaxI64 = new(big.Int).SetInt64(1<<63 - 1)
	c07P62    = new(big.Int).Lsh(big.NewInt(1), 62)
	c07P63    = new(big.Int).Lsh(big.NewInt(1), 63)
	c07P64    = new(big.Int).Lsh(big.NewInt(1), 64)
)

func bi(x int64) *big.Int          { return big.NewInt(x) }
func add(a, b *big.Int) *big.Int   { return new(big.Int).Add(a, b) }
func sub(a, b *big.Int) *big.Int   { return new(big.Int).Sub(a, b) }
func c07Clone(a *big.Int) *big.Int { return new(big.Int).Set(a) }

type c07Signal struct {
	ID string
	P  int64
}

type c07Feed struct {
	ID       string
	Power    int64
	Interval int64
}

// refInterval: README "How Feed Interval and Deviation are calculated": a signal is registered once its power
// reaches PowerStepThreshold; factor = floor(power/threshold); interval = max(MinInterval, floor(MaxInterval/factor)).
func refInterval(power, threshold, minI, maxI *big.Int) (*big.Int, bool) {
	if power.Cmp(threshold) < 0 {
		return nil, false
	}
	factor := new(big.Int).Quo(power, threshold)
	iv := new(big.Int).Quo(maxI, factor)
	if iv.Cmp(minI) < 0 {
		iv = c07Clone(minI)
	}
	return iv, true
}

// refRankLess is the rank order of the by-power index read backwards. The README gives the key layout
// 0x80 | BigEndian(power) | len(id) (1 byte) | id-bytes (stored bit-inverted, see keys.go); reading it from the end
// gives: higher power first, then longer id first, then the bytewise smaller id first.
func refRankLess(ap *big.Int, aid string, bp *big.Int, bid string) bool {
	if c := ap.Cmp(bp); c != 0 {
		return c > 0
	}
	if len(aid) != len(bid) {
		return len(aid) > len(bid)
	}
	return aid < bid
}

type c07Ranked struct {
	id string
	p  *big.Int
}

func refRanking(totals map[string]*big.Int) []c07Ranked {
	var all []c07Ranked
	for id, p := range totals {
		if p.Sign() > 0 {
			all = append(all, c07Ranked{id, p})
		}
	}
	sort.Slice(all, func(i, j int) bool { return refRankLess(all[i].p, all[i].id, all[j].p, all[j].id) })
	return all
}

// refCurrentFeeds: README "Current Feeds": signals ranking within the top MaxCurrentFeeds whose power reaches the
// threshold, each with its interval.
func refCurrentFeeds(totals map[string]*big.Int, threshold, minI, maxI int64, maxFeeds int) (feeds []c07Feed, eligible int, tieAtCut bool) {
	all := refRanking(totals)
	for _, r := range all {
		if r.p.Cmp(bi(threshold)) >= 0 {
			eligible++
		}
	}
	if maxFeeds <= 0 {
		return nil, eligible, false // "at most the configured maximum": none
	}
	if len(all) > maxFeeds {
		if all[maxFeeds-1].p.Cmp(all[maxFeeds].p) == 0 && all[maxFeeds].p.Cmp(bi(threshold)) >= 0 {
			tieAtCut = true
		}
		all = all[:maxFeeds]
	}
	for _, r := range all {
		iv, ok := refInterval(r.p, bi(threshold), bi(minI), bi(maxI))
		if !ok || !r.p.IsInt64() {
			continue
		}
		feeds = append(feeds, c07Feed{ID: r.id, Power: r.p.Int64(), Interval: iv.Int64()})
	}
	return
}

// c07Params: the feeds parameters the statement refers to, as currently in force.
type c07Params struct {
	Thr, MinI, MaxI  int64
	MaxFeeds, UpdInt int
}

type c07Model struct {
	deleg    [][]*big.Int  // [voter][validator]
	stake    [][]*big.Int  // [voter][denom]
	standing [][]c07Signal // [voter]
	voted    []bool        // an accepted vote exists (so a Lock record must exist)
	allowed  []bool        // per denom
}

func (m *c07Model) power(v int) *big.Int {
	p := new(big.Int)
	for _, d := range m.deleg[v] {
		p.Add(p, d)
	}
	for i, s := range m.stake[v] {
		if m.allowed[i] {
			p.Add(p, s)
		}
	}
	return p
}

func (m *c07Model) lock(v int) *big.Int {
	s := new(big.Int)
	for _, sg := range m.standing[v] {
		s.Add(s, bi(sg.P))
	}
	return s
}

func (m *c07Model) totals() map[string]*big.Int {
	t := map[string]*big.Int{}
	for _, sv := range m.standing {
		for _, sg := range sv {
			if t[sg.ID] == nil {
				t[sg.ID] = new(big.Int)
			}
			t[sg.ID].Add(t[sg.ID], bi(sg.P))
		}
	}
	return t
}

// ---- run -----------------------------------------------------------------------------------------------------------

type c07Tx struct {
	op    c07Op
	voter int
	sigs  []c07Signal
	amt   *big.Int
	val   int
	denom int
}

func c07SortedKeys(m map[string]*big.Int) []string {
	ks := make([]string, 0, len(m))
	for k := range m {
		ks = append(ks, k)
	}
	sort.Strings(ks)
	return ks
}

func runC07(c c07Case) *pbt.Verdict {
	v := &pbt.Verdict{}
	if c.NVoters < 1 || c.NVals < 1 || c.MaxFeeds < 1 || c.UpdateInterval < 1 || c.Threshold < 1 || c.MinInterval < 1 || c.MaxInterval < 1 || c.K < 1 {
		v.Class("malformed-case")
		return v
	}
	if c.K > len(c07IDs) {
		c.K = len(c07IDs)
	}
	vals := make([]sim.ValSpec, c.NVals)
	for i := range vals {
		vals[i] = sim.ValSpec{Tokens: int64(10+i) * 1_000_000}
	}
	fp := feedstypes.DefaultParams()
	fp.PowerStepThreshold = c.Threshold
	fp.MinInterval = c.MinInterval
	fp.MaxInterval = c.MaxInterval
	fp.MaxCurrentFeeds = uint64(c.MaxFeeds)
	fp.CurrentFeedsUpdateInterval = int64(c.UpdateInterval)
	denoms := []string{"uband"}
	if c.AltAllowed {
		denoms = append(denoms, "ualt")
	}
	rp := restaketypes.NewParams(denoms)
	altBal := sdkmath.NewInt(1_000_000_000)
	if c.Rich {
		altBal = sdkmath.NewIntFromBigInt(new(big.Int).Lsh(big.NewInt(1), 66))
	}
	ch, err := sim.New(sim.Config{
		NumAccounts: c.NVoters, Validators: vals, Feeds: &fp, Restake: &rp, MintOff: true,
		Balance: sdk.NewCoins(sdk.NewInt64Coin("uband", 1_000_000_000_000), sdk.NewCoin("ualt", altBal)),
	}, 0)
	if err != nil {
		v.Failf("C07/harness", "sim.New: %v", err)
		return v
	}
	defer ch.Close()

	m := &c07Model{allowed: []bool{true, c.AltAllowed}}
	for i := 0; i < c.NVoters; i++ {
		d := make([]*big.Int, c.NVals)
		for j := range d {
			d[j] = new(big.Int)
		}
		m.deleg = append(m.deleg, d)
		m.stake = append(m.stake, []*big.Int{new(big.Int), new(big.Int)})
		m.standing = append(m.standing, nil)
		m.voted = append(m.voted, false)
	}
	// feeds params in force (changed mid-history by "fparams" ops through governance)
	cur := &c07Params{Thr: c.Threshold, MinI: c.MinInterval, MaxI: c.MaxInterval, MaxFeeds: c.MaxFeeds, UpdInt: c.UpdateInterval}
	fpChain := fp                                             // the full Params message the next MsgUpdateParams starts from
	lastUpdate := int64(1) - int64(1)%int64(c.UpdateInterval) // sim.New has committed block 1

	// statistics for classes / non-triviality
	var (
		accepted, rejectedOver, revote2, boundary, wrapVotes, emptyVotes, dupVotes, tooMany int
		bEq, bPlus, bMinus, wrapTo0, wrapAffordable, totalOverflowRej, withdrawRej          int
		updateWithFeeds, feedsCut, tieCut, thrEq, intervalMin, intervalStep, inapplicable   int
		multiVoterSignal                                                                    bool
		revoteSame, withdrawAfterSame                                                       int
		// region "power below the lock" (reachable only through a change of the restake AllowedDenoms)
		denomsChanged, denomsReallowed, powerBelowLockObs, revoteSameBelow, revoteNotGrowingBelow int
		revoteWithinPowerBelow, voteAcceptedBelow, voteRejectedBelow, withdrawWhileBelow          int
		withdrawRejWhileBelow, delegateRejBelow, delegateOKBelow, stakeOKBelow, govNotPassed      int
	)
	// excused[v]: the voter's power fell below its lock when governance removed a denom from AllowedDenoms; stays
	// set until the power covers the lock again (only then may the standing vote exceed the power on committed state)
	excused := make([]bool, c.NVoters)
	var afterBlock func() // runs once after the txs of the next block were judged, before the state check
	// genesis export / import round trips
	var (
		reimports, reimportWithVote, reimportBelowLock, reimportFeedsRecomputed, reimportFeedsCarried   int
		acceptedAfterReimport, rejectedOverAfterReimport, withdrawRejAfterReimport, updateAfterReimport int
		lastUpdateUnasserted                                                                            int
	)
	// feeds params changed through governance
	var (
		feedsParamsChanged, maxFeedsLoweredBelowEligible, maxFeedsRaised, thresholdChanged, updIntChanged    int
		maxFeeds0AtUpdate, maxFeeds0AtUpdateWithEligible, voteRefusedOverCurrentMax, voteAcceptedAfterParams int
	)
	var hugeLockObs, withdrawRejHugeLock int // locks of 2^63 or more
	justReimported := false                  // the block under check is the first block of a re-imported application
	lastUpdateUnknown := false               // since a re-import no update block has passed: CurrentFeeds.LastUpdateBlock is whatever InitGenesis wrote
	sanitySig := "C07/harness-power-model"
	lastSame := make([]bool, c.NVoters) // the voter\'s latest accepted vote was a re-vote with an unchanged total (> 0)

	resolve := func(n c07Num, voter int, used *big.Int, holding *big.Int) *big.Int {
		pw := m.power(voter)
		switch n.K {
		case "abs":
			return bi(n.V)
		case "thr":
			return add(new(big.Int).Mul(bi(cur.Thr), bi(n.V)), bi(n.D))
		case "rem":
			return add(sub(pw, used), bi(n.D))
		case "frac":
			return new(big.Int).Quo(new(big.Int).Mul(pw, bi(n.V)), bi(4))
		case "pow":
			return add(pw, bi(n.D))
		case "all":
			return add(holding, bi(n.D))
		case "edge":
			return add(sub(pw, m.lock(voter)), bi(n.D))
		case "lck":
			return add(sub(m.lock(voter), used), bi(n.D))
		case "p62":
			return add(c07P62, bi(n.D))
		case "p63":
			return add(c07P63, bi(n.D))
		}
		return bi(1)
	}

	buildVote := func(o c07Op, voter int) []c07Signal {
		var sigs []c07Signal
		if o.Wrap == 3 || o.Wrap == 4 {
			t := bi(0)
			if o.WrapT != nil {
				t = resolve(*o.WrapT, voter, bi(0), bi(0))
			}
			if t.Sign() < 0 {
				t = bi(0)
			}
			if t.Cmp(bi(1<<61)) > 0 {
				t = bi(1 << 61)
			}
			var ps []int64
			if o.Wrap == 3 {
				ps = []int64{1<<63 - 1, 1<<63 - 1, 2 + t.Int64()}
			} else {
				ps = []int64{1 << 62, 1 << 62, 1 << 62, 1<<62 + t.Int64()}
			}
			base := o.Base
			if base < 0 {
				base = -base
			}
			for i, p := range ps {
				sigs = append(sigs, c07Signal{ID: c07IDs[(base+i)%len(c07IDs)], P: p})
			}
			return sigs
		}
		if st := m.standing[voter]; o.Same != 0 && len(st) > 0 && m.lock(voter).Sign() > 0 && m.lock(voter).IsInt64() {
			if o.Same == 1 {
				return append([]c07Signal(nil), st...)
			}
			total := m.lock(voter).Int64()
			var ids []string
			if o.Same == 2 {
				for _, x := range st {
					ids = append(ids, x.ID)
				}
			} else {
				n := o.Parts
				if n < 1 {
					n = 1
				}
				if n > c.K {
					n = c.K
				}
				if n > cur.MaxFeeds {
					n = cur.MaxFeeds
				}
				base := o.Base
				if base < 0 {
					base = -base
				}
				for i := 0; i < n; i++ {
					ids = append(ids, c07IDs[(base+i)%c.K])
				}
			}
			if int64(len(ids)) > total {
				ids = ids[:total]
			}
			n := len(ids)
			wsum := int64(0)
			wgt := make([]int64, n)
			for i := range wgt {
				wgt[i] = 1
				if i < len(o.Weights) && o.Weights[i] >= 0 {
					wgt[i] = int64(o.Weights[i])
				}
				wsum += wgt[i]
			}
			rest := bi(total - int64(n))
			given := new(big.Int)
			for i, id := range ids {
				share := new(big.Int)
				if i == n-1 {
					share = sub(rest, given)
				} else if wsum > 0 {
					share = new(big.Int).Quo(new(big.Int).Mul(rest, bi(wgt[i])), bi(wsum))
					given.Add(given, share)
				}
				sigs = append(sigs, c07Signal{ID: id, P: 1 + share.Int64()})
			}
			return sigs
		}
		used := new(big.Int)
		for _, s := range o.Sigs {
			id := s.ID
			if id < 0 {
				id = -id
			}
			p := resolve(s.P, voter, used, bi(0))
			nonpos := s.P.K == "abs" && s.P.V <= 0
			if p.Sign() <= 0 && !nonpos {
				p = bi(1)
			}
			if p.Cmp(c07MaxI64) > 0 {
				p = c07Clone(c07MaxI64)
			}
			if c.NoWrap && p.Sign() > 0 {
				room := sub(c07MaxI64, used)
				if room.Sign() <= 0 {
					continue // no room left inside int64: drop the signal
				}
				if p.Cmp(room) > 0 {
					p = room
				}
			}
			if p.Sign() > 0 {
				used.Add(used, p)
			}
			sigs = append(sigs, c07Signal{ID: c07IDs[id%c.K], P: p.Int64()})
		}
		// late binding to a lowered maximum (otherwise almost every later vote would be refused as too large); one
		// in four keeps its size
		if feedsParamsChanged > 0 && cur.MaxFeeds >= 1 && len(sigs) > cur.MaxFeeds && len(sigs) <= c.MaxFeeds && (voter+len(sigs))%4 != 0 {
			sigs = sigs[:cur.MaxFeeds]
		}
		return sigs
	}

	var pend []c07Tx
	var pendTxs [][]byte
	expFeeds := []c07Feed{} // model of CurrentFeeds (genesis: empty)

	addTx := func(o c07Op) {
		voter := o.Voter
		if voter < 0 {
			voter = -voter
		}
		voter %= c.NVoters
		acct := ch.Users[voter]
		t := c07Tx{op: o, voter: voter}
		var msg sdk.Msg
		switch o.Kind {
		case "vote":
			t.sigs = buildVote(o, voter)
			fs := make([]feedstypes.Signal, 0, len(t.sigs))
			for _, s := range t.sigs {
				fs = append(fs, feedstypes.Signal{ID: s.ID, Power: s.P})
			}
			msg = &feedstypes.MsgVote{Voter: acct.Addr.String(), Signals: fs}
		case "delegate", "undelegate":
			t.val = o.Val
			if t.val < 0 {
				t.val = -t.val
			}
			t.val %= c.NVals
			n := c07Num{K: "abs", V: 1}
			if o.Amt != nil {
				n = *o.Amt
			}
			t.amt = resolve(n, voter, bi(0), m.deleg[voter][t.val])
			if t.amt.Sign() <= 0 {
				t.amt = bi(1)
			}
			coin := sdk.NewCoin("uband", sdkmath.NewIntFromBigInt(t.amt))
			if o.Kind == "delegate" {
				msg = stakingtypes.NewMsgDelegate(acct.Addr.String(), ch.Vals[t.val].Val.String(), coin)
			} else {
				msg = stakingtypes.NewMsgUndelegate(acct.Addr.String(), ch.Vals[t.val].Val.String(), coin)
			}
		case "stake", "unstake":
			t.denom = o.Denom
			if t.denom < 0 {
				t.denom = -t.denom
			}
			t.denom %= 2
			n := c07Num{K: "abs", V: 1}
			if o.Amt != nil {
				n = *o.Amt
			}
			t.amt = resolve(n, voter, bi(0), m.stake[voter][t.denom])
			if t.amt.Sign() <= 0 {
				t.amt = bi(1)
			}
			coins := sdk.NewCoins(sdk.NewCoin(c07Denoms[t.denom], sdkmath.NewIntFromBigInt(t.amt)))
			if o.Kind == "stake" {
				msg = restaketypes.NewMsgStake(acct.Addr, coins)
			} else {
				msg = restaketypes.NewMsgUnstake(acct.Addr, coins)
			}
		default:
			return
		}
		pend = append(pend, t)
		pendTxs = append(pendTxs, ch.SignTx(acct, msg))
	}

	checkState := func(height int64, now time.Time) {
		ctx := ch.Ctx()
		fk, rk := ch.App.FeedsKeeper, ch.App.RestakeKeeper
		// (a re-import replaces the application instance, and store keys belong to the instance)
		feedsKey := ch.App.GetKey(feedstypes.StoreKey)
		restakeKey := ch.App.GetKey(restaketypes.StoreKey)
		modelTotals := m.totals()

		// harness sanity: the model's idea of every voter's holdings is what staking / restake store
		for i := 0; i < c.NVoters; i++ {
			addr := ch.Users[i].Addr
			for j := 0; j < c.NVals; j++ {
				got := new(big.Int)
				if d, err := ch.App.StakingKeeper.GetDelegation(ctx, addr, ch.Vals[j].Val); err == nil {
					got = d.Shares.TruncateInt().BigInt()
				}
				if got.Cmp(m.deleg[i][j]) != 0 {
					v.Failf(sanitySig, "height %d: voter %d delegation to val %d is %s on chain, model %s", height, i, j, got, m.deleg[i][j])
				}
			}
			st := rk.GetStake(ctx, addr)
			for j, dn := range c07Denoms {
				if got := st.Coins.AmountOf(dn).BigInt(); got.Cmp(m.stake[i][j]) != 0 {
					v.Failf(sanitySig, "height %d: voter %d staked %s is %s on chain, model %s", height, i, dn, got, m.stake[i][j])
				}
			}
		}

		func() {
			var want []string
			for j, dn := range c07Denoms {
				if m.allowed[j] {
					want = append(want, dn)
				}
			}
			got := append([]string(nil), rk.GetParams(ctx).AllowedDenoms...)
			sort.Strings(got)
			sort.Strings(want)
			if strings.Join(got, ",") != strings.Join(want, ",") {
				v.Failf(sanitySig, "height %d: restake AllowedDenoms %v on chain, model %v", height, got, want)
			}
		}()

		// (b1) Vote store == model standing vote ; Lock[voter,"feeds"] == sum of the standing vote
		voteTotals := map[string]*big.Int{}
		for i := 0; i < c.NVoters; i++ {
			addr := ch.Users[i].Addr
			got := fk.GetVote(ctx, addr)
			same := len(got) == len(m.standing[i])
			for j := 0; same && j < len(got); j++ {
				same = got[j].ID == m.standing[i][j].ID && got[j].Power == m.standing[i][j].P
			}
			if !same {
				v.Failf("C07/vote-store", "height %d: voter %d standing vote on chain %v, model %v", height, i, got, m.standing[i])
			}
			for _, s := range got {
				if voteTotals[s.ID] == nil {
					voteTotals[s.ID] = new(big.Int)
				}
				voteTotals[s.ID].Add(voteTotals[s.ID], bi(s.Power))
			}
			want := m.lock(i)
			if want.Cmp(c07P63) >= 0 {
				hugeLockObs++
			}
			lk, found := rk.GetLock(ctx, addr, feedstypes.ModuleName)
			switch {
			case !found && (m.voted[i] || want.Sign() != 0):
				v.Failf("C07/lock-mismatch", "height %d: voter %d has no feeds lock but a standing vote of sum %s", height, i, want)
			case found && (lk.Power.IsNil() || lk.Power.BigInt().Cmp(want) != 0):
				v.Failf("C07/lock-mismatch", "height %d: voter %d feeds lock %s, sum of standing vote %s", height, i, lk.Power, want)
			}
			// the statement's bound itself, on the committed state: locked power never above total power
			// (the power can fall below an existing lock only when governance removes a staked denom from the restake
			// AllowedDenoms - "when the vote is cast" in the statement; such voters are excused until they recover)
			if pw := m.power(i); want.Cmp(pw) > 0 {
				if i < len(excused) && excused[i] {
					powerBelowLockObs++
				} else {
					v.Failf("C07/standing-exceeds-power", "height %d: voter %d standing vote sum %s exceeds power %s", height, i, want, pw)
				}
			} else if i < len(excused) {
				excused[i] = false
			}
		}
		// votes of anybody else must not exist (nobody else votes)
		if all := fk.GetVotes(ctx); len(all) > c.NVoters {
			v.Failf("C07/vote-store", "height %d: %d votes in the store, only %d voters", height, len(all), c.NVoters)
		}

		// (b1') restake by-power index (0x80 | len | addr | BigEndian(power) | vault key -> vault key): exactly one
		// entry per Lock record (0x11 ...) carrying the lock's current power. The withdrawal guards look locks up
		// through this index, so "locked against withdrawal" depends on it.
		func() {
			rstore := ctx.KVStore(restakeKey)
			var want, got []string
			it := storetypes.KVStorePrefixIterator(rstore, []byte{0x11})
			for ; it.Valid(); it.Next() {
				var l restaketypes.Lock
				if err := ch.App.AppCodec().Unmarshal(it.Value(), &l); err != nil {
					v.Failf("C07/lock-index", "height %d: undecodable lock at key %x", height, it.Key())
					continue
				}
				a, err := sdk.AccAddressFromBech32(l.StakerAddress)
				if err != nil || l.Power.IsNil() || !l.Power.IsUint64() {
					v.Failf("C07/lock-index", "height %d: lock %v has no representable index entry", height, l)
					continue
				}
				want = append(want, fmt.Sprintf("%x power=%d key=%s", []byte(a), l.Power.Uint64(), l.Key))
			}
			it.Close()
			it = storetypes.KVStorePrefixIterator(rstore, []byte{0x80})
			for ; it.Valid(); it.Next() {
				k := it.Key()
				if len(k) < 2 || len(k) < 2+int(k[1])+8 {
					v.Failf("C07/lock-index", "height %d: malformed locks-by-power key %x", height, k)
					continue
				}
				l := int(k[1])
				key := string(k[2+l+8:])
				if string(it.Value()) != key {
					v.Failf("C07/lock-index", "height %d: locks-by-power key %x points at %q", height, k, it.Value())
				}
				got = append(got, fmt.Sprintf("%x power=%d key=%s", k[2:2+l], binary.BigEndian.Uint64(k[2+l:2+l+8]), key))
			}
			it.Close()
			sort.Strings(want)
			sort.Strings(got)
			if strings.Join(want, "; ") != strings.Join(got, "; ") {
				v.Failf("C07/lock-index", "height %d: locks-by-power index [%s] does not match the lock records [%s]", height, strings.Join(got, "; "), strings.Join(want, "; "))
			}
		}()

		// (b2) SignalTotalPower store == sum over standing votes (from the Vote store and from the model)
		store := ctx.KVStore(feedsKey)
		storeTotals := map[string]*big.Int{}
		func() {
			it := storetypes.KVStorePrefixIterator(store, []byte{0x13})
			defer it.Close()
			for ; it.Valid(); it.Next() {
				var s feedstypes.Signal
				if err := ch.App.AppCodec().Unmarshal(it.Value(), &s); err != nil {
					v.Failf("C07/total-mismatch", "height %d: undecodable signal-total-power at key %x", height, it.Key())
					continue
				}
				id := string(it.Key()[1:])
				if s.ID != id {
					v.Failf("C07/total-mismatch", "height %d: signal-total-power key %q holds id %q", height, id, s.ID)
				}
				if s.Power == 0 {
					v.Failf("C07/total-mismatch", "height %d: signal %q stored with zero total power", height, id)
				}
				storeTotals[id] = bi(s.Power)
			}
		}()
		union := map[string]*big.Int{}
		for k := range storeTotals {
			union[k] = nil
		}
		for k := range modelTotals {
			union[k] = nil
		}
		for k := range voteTotals {
			union[k] = nil
		}
		zero := new(big.Int)
		get := func(mm map[string]*big.Int, k string) *big.Int {
			if x := mm[k]; x != nil {
				return x
			}
			return zero
		}
		for _, id := range c07SortedKeys(union) {
			st, mt, vt := get(storeTotals, id), get(modelTotals, id), get(voteTotals, id)
			if st.Cmp(vt) != 0 {
				v.Failf("C07/total-mismatch", "height %d: signal %q total power %s, sum over the Vote store %s", height, id, st, vt)
			}
			if st.Cmp(mt) != 0 {
				v.Failf("C07/total-mismatch", "height %d: signal %q total power %s, sum over standing votes (model) %s", height, id, st, mt)
			}
			// the keeper getter agrees with the raw store
			if s, err := fk.GetSignalTotalPower(ctx, id); (err == nil) != (st.Sign() != 0) || (err == nil && bi(s.Power).Cmp(st) != 0) {
				v.Failf("C07/total-mismatch", "height %d: GetSignalTotalPower(%q) = %v, %v but store holds %s", height, id, s, err, st)
			}
		}

		// (b3) by-power index: exactly one entry per non-zero total, carrying that power
		nonZero := 0
		for _, p := range modelTotals {
			if p.Sign() != 0 {
				nonZero++
			}
		}
		seen := map[string]int{}
		entries := 0
		func() {
			it := storetypes.KVStorePrefixIterator(store, []byte{0x80})
			defer it.Close()
			for ; it.Valid(); it.Next() {
				entries++
				k := it.Key()
				if len(k) < 10 || int(k[9]) != len(k)-10 {
					v.Failf("C07/index-mismatch", "height %d: malformed index key %x", height, k)
					continue
				}
				p := new(big.Int).SetUint64(binary.BigEndian.Uint64(k[1:9]))
				idb := make([]byte, len(k)-10)
				for i := range idb {
					idb[i] = ^k[10+i]
				}
				id := string(idb)
				seen[id]++
				if string(it.Value()) != id {
					v.Failf("C07/index-mismatch", "height %d: index key of %q points at %q", height, id, it.Value())
				}
				if p.Cmp(get(modelTotals, id)) != 0 {
					v.Failf("C07/index-mismatch", "height %d: index entry (%q, power %s) but total power is %s", height, id, p, get(modelTotals, id))
				}
			}
		}()
		if entries != nonZero {
			v.Failf("C07/index-mismatch", "height %d: by-power index has %d entries, %d signals have non-zero total power", height, entries, nonZero)
		}
		for _, id := range c07SortedKeys(modelTotals) {
			if modelTotals[id].Sign() != 0 && seen[id] != 1 {
				v.Failf("C07/index-mismatch", "height %d: signal %q has %d index entries", height, id, seen[id])
			}
		}

		// (c) current feeds
		isUpdate := height%int64(cur.UpdInt) == 0
		cf := fk.GetCurrentFeeds(ctx)
		feedsEqual := func(got []feedstypes.Feed, exp []c07Feed) bool {
			set := map[string]feedstypes.Feed{}
			for _, f := range got {
				set[f.SignalID] = f
			}
			if len(set) != len(got) || len(got) != len(exp) {
				return false
			}
			for _, f := range exp {
				if g, in := set[f.ID]; !in || g.Power != f.Power || g.Interval != f.Interval {
					return false
				}
			}
			return true
		}
		if isUpdate {
			lastUpdateUnknown = false
			lastUpdate = height
			if reimports > 0 {
				updateAfterReimport++
			}
			var eligible int
			var tie bool
			expFeeds, eligible, tie = refCurrentFeeds(modelTotals, cur.Thr, cur.MinI, cur.MaxI, cur.MaxFeeds)
			if len(expFeeds) > 0 {
				updateWithFeeds++
			}
			if eligible > cur.MaxFeeds {
				feedsCut++
			}
			if cur.MaxFeeds == 0 {
				maxFeeds0AtUpdate++
				if eligible > 0 {
					maxFeeds0AtUpdateWithEligible++
				}
			}
			if tie {
				tieCut++
			}
			for _, f := range expFeeds {
				if f.Power == cur.Thr {
					thrEq++
				}
				if f.Interval == cur.MinI && cur.MaxI/(f.Power/cur.Thr) < cur.MinI {
					intervalMin++
				} else if f.Power/cur.Thr > 1 {
					intervalStep++
				}
			}
			if cf.LastUpdateBlock != height || cf.LastUpdateTimestamp != now.Unix() {
				v.Failf("C07/feeds-not-updated", "height %d is an update block but CurrentFeeds says last update block %d time %d", height, cf.LastUpdateBlock, cf.LastUpdateTimestamp)
			}
		} else if justReimported {
			// The feeds genesis format carries votes only: CurrentFeeds cannot survive the round trip as a record.
			// InitGenesis (x/feeds/keeper/genesis.go) recomputes the list from the re-derived signal totals, which is
			// a list "of exactly the highest-powered signals that reach the threshold" for the totals at import; a
			// carried-over list would satisfy the statement as well. Either is accepted (and from then on expected
			// until the next update block); LastUpdateBlock/Timestamp are not asserted before that block.
			lastUpdateUnknown = true
			ref, _, _ := refCurrentFeeds(modelTotals, cur.Thr, cur.MinI, cur.MaxI, cur.MaxFeeds)
			switch {
			case feedsEqual(cf.Feeds, ref):
				if !feedsEqual(cf.Feeds, expFeeds) {
					reimportFeedsRecomputed++
				}
				expFeeds = ref
			case feedsEqual(cf.Feeds, expFeeds):
				reimportFeedsCarried++
			default:
				expFeeds = ref // reported below against the list the genesis code should have produced
			}
		} else if lastUpdateUnknown {
			lastUpdateUnasserted++
		} else if cf.LastUpdateBlock != lastUpdate {
			v.Failf("C07/feeds-not-updated", "height %d: CurrentFeeds last update block %d, want %d (update interval %d)", height, cf.LastUpdateBlock, lastUpdate, cur.UpdInt)
		}
		gotSet := map[string]feedstypes.Feed{}
		for _, f := range cf.Feeds {
			gotSet[f.SignalID] = f
		}
		ok := len(gotSet) == len(cf.Feeds) && len(cf.Feeds) == len(expFeeds)
		for _, f := range expFeeds {
			g, in := gotSet[f.ID]
			if !in || g.Power != f.Power || g.Interval != f.Interval {
				ok = false
			}
		}
		if !ok {
			// is it a legal top-N under some other tie-break? then only the tie-break differs
			sig := "C07/current-feeds"
			if isUpdate && len(cf.Feeds) == len(expFeeds) && len(gotSet) == len(cf.Feeds) {
				tieOnly := true
				minIn := (*big.Int)(nil)
				for _, g := range cf.Feeds {
					iv, el := refInterval(bi(g.Power), bi(cur.Thr), bi(cur.MinI), bi(cur.MaxI))
					if get(modelTotals, g.SignalID).Cmp(bi(g.Power)) != 0 || !el || iv.Cmp(bi(g.Interval)) != 0 {
						tieOnly = false
					}
					if minIn == nil || bi(g.Power).Cmp(minIn) < 0 {
						minIn = bi(g.Power)
					}
				}
				for id, p := range modelTotals {
					if _, in := gotSet[id]; !in && minIn != nil && p.Cmp(minIn) > 0 {
						tieOnly = false
					}
				}
				if tieOnly {
					sig = "C07/feeds-tiebreak"
				}
			}
			if justReimported {
				sig = "C07/current-feeds-after-reimport"
			}
			v.Failf(sig, "height %d (update block: %v, first block after a genesis re-import: %v): CurrentFeeds %v, expected %v (threshold %d min %d max %d maxfeeds %d, totals %v)",
				height, isUpdate, justReimported, cf.Feeds, expFeeds, cur.Thr, cur.MinI, cur.MaxI, cur.MaxFeeds, modelTotals)
		} else {
			for i, f := range expFeeds {
				if cf.Feeds[i].SignalID != f.ID {
					v.Count("feeds_order_differs", 1)
					break
				}
			}
		}
	}

	flushRes := func(dt int) (*sim.BlockResult, bool) {
		if dt < 1 {
			dt = 1
		}
		res, err := ch.Block(pendTxs, time.Duration(dt)*time.Second)
		if err != nil {
			v.Failf("C07/finalize", "block %d failed: %v", ch.Height+1, err)
			return nil, false
		}
		if len(res.Resp.TxResults) != len(pend) {
			v.Failf("C07/harness", "block %d: %d tx results for %d txs", res.Height, len(res.Resp.TxResults), len(pend))
			return nil, false
		}
		for i, t := range pend {
			tr := res.Resp.TxResults[i]
			ok := tr.Code == 0
			pw := m.power(t.voter)
			lock := m.lock(t.voter)
			switch t.op.Kind {
			case "vote":
				sum := new(big.Int)
				vbOK := true
				ids := map[string]bool{}
				for _, s := range t.sigs {
					sum.Add(sum, bi(s.P))
					if s.P <= 0 || ids[s.ID] {
						vbOK = false
					}
					ids[s.ID] = true
				}
				wraps := sum.Cmp(c07MaxI64) > 0
				if wraps {
					wrapVotes++
					w := new(big.Int).Mod(sum, c07P64)
					if w.Sign() == 0 {
						wrapTo0++
					}
					if w.Cmp(c07P63) < 0 && w.Cmp(pw) <= 0 {
						wrapAffordable++
					}
				}
				switch d := sub(sum, pw); {
				case d.Sign() == 0:
					boundary++
					bEq++
				case d.Cmp(bi(1)) == 0:
					boundary++
					bPlus++
				case d.Cmp(bi(-1)) == 0:
					boundary++
					bMinus++
				}
				if len(t.sigs) == 0 {
					emptyVotes++
				}
				if len(ids) != len(t.sigs) {
					dupVotes++
				}
				if len(t.sigs) > cur.MaxFeeds {
					tooMany++
					if feedsParamsChanged > 0 && len(t.sigs) <= c.MaxFeeds {
						// more signals than the maximum in force (fine under the genesis maximum); the statement bounds the
						// feed list, not the vote: the outcome is only counted
						if ok {
							v.Count("vote_accepted_with_more_signals_than_current_max", 1)
						} else {
							voteRefusedOverCurrentMax++
						}
					}
				}
				if ok && feedsParamsChanged > 0 {
					voteAcceptedAfterParams++
				}
				// region statistics: the voter's power is below its lock (after a denom was disallowed)
				if isBelow := pw.Cmp(lock) < 0; isBelow {
					switch {
					case len(m.standing[t.voter]) > 0 && sum.Cmp(lock) == 0:
						revoteSameBelow++
					case sum.Cmp(pw) > 0 && sum.Cmp(lock) < 0:
						revoteNotGrowingBelow++
					case sum.Cmp(pw) <= 0 && ok:
						revoteWithinPowerBelow++
					}
					if ok {
						voteAcceptedBelow++
					} else {
						voteRejectedBelow++
					}
				}
				if ok {
					accepted++
					if reimports > 0 {
						acceptedAfterReimport++
					}
					// (a) a vote may be accepted only if the mathematical sum of its powers is within the voter's power
					// (the sum may legitimately exceed int64 for a voter that really has that much power)
					if sum.Cmp(pw) > 0 {
						if wraps {
							v.Failf("C07/vote-sum-wrap", "height %d: vote of voter %d (power %s) accepted with signals %v: true sum %s exceeds the voter's power (int64 sum wraps to %s)",
								res.Height, t.voter, pw, t.sigs, sum, new(big.Int).Mod(sum, c07P64))
							return nil, false
						}
						v.Failf("C07/vote-exceeds-power", "height %d: vote of voter %d accepted with sum %s above power %s (locked by the standing vote: %s): %v", res.Height, t.voter, sum, pw, lock, t.sigs)
						return nil, false
					}
					// re-vote changing >= 2 signals?
					if m.voted[t.voter] {
						diff := map[string]int64{}
						for _, s := range m.standing[t.voter] {
							diff[s.ID] -= s.P
						}
						for _, s := range t.sigs {
							diff[s.ID] += s.P
						}
						n := 0
						for _, d := range diff {
							if d != 0 {
								n++
							}
						}
						if n >= 2 && len(m.standing[t.voter]) > 0 {
							revote2++
						}
					}
					lastSame[t.voter] = m.voted[t.voter] && lock.Sign() > 0 && sum.Cmp(lock) == 0
					if lastSame[t.voter] {
						revoteSame++
					}
					m.standing[t.voter] = append([]c07Signal(nil), t.sigs...)
					m.voted[t.voter] = true
				} else if sum.Cmp(pw) > 0 {
					rejectedOver++
					if reimports > 0 {
						rejectedOverAfterReimport++
					}
				} else {
					// rejection of an affordable vote: never a violation, only statistics
					overflow := false
					tot := m.totals()
					for _, s := range m.standing[t.voter] {
						tot[s.ID] = sub(tot[s.ID], bi(s.P))
					}
					for _, s := range t.sigs {
						if tot[s.ID] == nil {
							tot[s.ID] = new(big.Int)
						}
						tot[s.ID] = add(tot[s.ID], bi(s.P))
						if tot[s.ID].Cmp(c07MaxI64) > 0 {
							overflow = true
						}
					}
					switch {
					case !vbOK:
						v.Count("affordable_rejected_invalid_msg", 1)
					case len(t.sigs) > cur.MaxFeeds:
						v.Count("affordable_rejected_too_many", 1)
					case overflow:
						totalOverflowRej++
						v.Count("affordable_rejected_total_overflow", 1)
					default:
						v.Count("converse_mismatch", 1)
					}
				}
			case "gov":
				if !ok {
					v.Failf("C07/harness", "height %d: governance tx failed: %s", res.Height, tr.Log)
					return nil, false
				}
			case "delegate":
				// (while the power is below the lock the staking hook may refuse a delegation that does not reach the
				// lock; the statement says nothing about it: the model follows the outcome, nothing is asserted)
				if ok {
					m.deleg[t.voter][t.val].Add(m.deleg[t.voter][t.val], t.amt)
					if pw.Cmp(lock) < 0 {
						delegateOKBelow++
					}
				} else {
					inapplicable++
					if pw.Cmp(lock) < 0 {
						delegateRejBelow++
					}
				}
			case "stake":
				if ok {
					m.stake[t.voter][t.denom].Add(m.stake[t.voter][t.denom], t.amt)
					if pw.Cmp(lock) < 0 {
						stakeOKBelow++
					}
				} else {
					inapplicable++
				}
			case "undelegate", "unstake":
				hold := m.deleg[t.voter][t.val]
				counts := true
				if t.op.Kind == "unstake" {
					hold = m.stake[t.voter][t.denom]
					counts = m.allowed[t.denom]
				}
				after := c07Clone(pw)
				if counts {
					after.Sub(after, t.amt)
				}
				below := after.Cmp(lock) < 0
				if below && t.amt.Cmp(hold) <= 0 && lastSame[t.voter] {
					withdrawAfterSame++
				}
				if pw.Cmp(lock) < 0 && t.amt.Cmp(hold) <= 0 {
					// already below the lock: whatever is withdrawn (even coins of a denom that does not count) leaves
					// the total power below the lock, so by the statement it must not succeed
					withdrawWhileBelow++
					if !ok {
						withdrawRejWhileBelow++
					}
				}
				if ok {
					// (d) a withdrawal that takes total power below the locked power must be rejected
					if below {
						v.Failf("C07/withdraw-below-lock", "height %d: %s of %s by voter %d accepted: power %s -> %s but %s is locked by the standing vote",
							res.Height, t.op.Kind, t.amt, t.voter, pw, after, lock)
						return nil, false
					}
					hold.Sub(hold, t.amt)
					if hold.Sign() < 0 {
						v.Failf("C07/harness-power-model", "height %d: %s of %s accepted above the holding", res.Height, t.op.Kind, t.amt)
						return nil, false
					}
				} else if below && t.amt.Cmp(hold) <= 0 {
					withdrawRej++
					if lock.Cmp(c07P63) >= 0 {
						withdrawRejHugeLock++
					}
					if reimports > 0 {
						withdrawRejAfterReimport++
					}
				} else if t.amt.Cmp(hold) <= 0 {
					v.Count("withdraw_rejected_other", 1)
				} else {
					inapplicable++
				}
			}
		}
		pend, pendTxs = nil, nil
		if afterBlock != nil {
			f := afterBlock
			afterBlock = nil
			f()
		}
		checkState(res.Height, res.Time)
		return res, v.Violation == ""
	}
	flush := func(dt int) bool {
		_, ok := flushRes(dt)
		return ok
	}

	// runDenoms installs new restake AllowedDenoms through a real governance proposal (the same three steps as
	// sim.GovExec: submit, all validators vote yes, voting period ends and the gov end blocker executes the message),
	// every block going through the ordinary per-block judgement and state check.
	// runGov puts one authority-only message through a real governance proposal (the same three steps as
	// sim.GovExec: submit, all validators vote yes, voting period ends and the gov end blocker executes the message),
	// every block going through the ordinary per-block judgement and state check. onPassed brings the model up to
	// date; it runs after the txs of the executing block were judged and before that block's state check (the gov end
	// blocker runs before the feeds end blocker, so an update block already works with the new values).
	runGov := func(msg sdk.Msg, onPassed func()) bool {
		if len(pend) > 0 && !flush(1) {
			return false
		}
		prop, err := govv1.NewMsgSubmitProposal([]sdk.Msg{msg}, sdk.NewCoins(sdk.NewInt64Coin("uband", 10)), ch.Vals[0].Addr.String(), "", "t", "s", false)
		if err != nil {
			v.Failf("C07/harness", "NewMsgSubmitProposal: %v", err)
			return false
		}
		pend = append(pend, c07Tx{op: c07Op{Kind: "gov"}})
		pendTxs = append(pendTxs, ch.SignTx(ch.Vals[0], prop))
		r1, ok := flushRes(1)
		if !ok {
			return false
		}
		var pid uint64
		for _, ev := range sim.Events(r1.Resp, "submit_proposal") {
			if a := sim.Attr(ev, "proposal_id"); a != "" {
				fmt.Sscan(a, &pid)
			}
		}
		if pid == 0 {
			v.Failf("C07/harness", "height %d: no proposal id in the events of the submit-proposal tx", r1.Height)
			return false
		}
		for _, va := range ch.Vals {
			pend = append(pend, c07Tx{op: c07Op{Kind: "gov"}})
			pendTxs = append(pendTxs, ch.SignTx(va, govv1.NewMsgVote(va.Addr, pid, govv1.OptionYes, "")))
		}
		if !flush(1) {
			return false
		}
		afterBlock = func() {
			p, err := ch.App.GovKeeper.Proposals.Get(ch.Ctx(), pid)
			if err != nil || p.Status != govv1.StatusPassed {
				govNotPassed++
				return
			}
			onPassed()
		}
		return flush(int(ch.Cfg.GovVoting/time.Second) + 1)
	}

	// runDenoms installs new restake AllowedDenoms.
	runDenoms := func(set int) bool {
		if set < 0 {
			set = -set
		}
		names := c07DenomSets[set%len(c07DenomSets)]
		msg := restaketypes.NewMsgUpdateParams(sim.GovAuthority(), restaketypes.NewParams(append([]string{}, names...)))
		return runGov(msg, func() {
			was := append([]bool(nil), m.allowed...)
			for j, dn := range c07Denoms {
				m.allowed[j] = false
				for _, x := range names {
					if x == dn {
						m.allowed[j] = true
					}
				}
			}
			changed := false
			for j := range was {
				if was[j] != m.allowed[j] {
					changed = true
					if m.allowed[j] {
						denomsReallowed++
					}
				}
			}
			if changed {
				denomsChanged++
			}
			for i := 0; i < c.NVoters; i++ {
				if m.lock(i).Cmp(m.power(i)) > 0 {
					excused[i] = true
				}
			}
		})
	}

	// runFeedsParams changes one x/feeds parameter.
	runFeedsParams := func(o c07Op) bool {
		next := *cur
		val := o.PV
		switch o.Par {
		case "maxfeeds":
			if o.PRel {
				val += int64(cur.MaxFeeds)
			}
			if val < 0 {
				val = 0
			}
			if val > 8 {
				val = 8
			}
			next.MaxFeeds = int(val)
		case "thr":
			if o.PRel {
				val += cur.Thr
			}
			if val < 1 {
				val = 1
			}
			next.Thr = val
		case "minint":
			if val < 1 {
				val = 1
			}
			next.MinI = val
		case "maxint":
			if val < 1 {
				val = 1
			}
			next.MaxI = val
		case "updint":
			if val < 1 {
				val = 1
			}
			if val > 8 {
				val = 8
			}
			next.UpdInt = int(val)
		default:
			inapplicable++
			return true
		}
		np := fpChain
		np.PowerStepThreshold, np.MinInterval, np.MaxInterval = next.Thr, next.MinI, next.MaxI
		np.MaxCurrentFeeds, np.CurrentFeedsUpdateInterval = uint64(next.MaxFeeds), int64(next.UpdInt)
		return runGov(&feedstypes.MsgUpdateParams{Authority: sim.GovAuthority(), Params: np}, func() {
			if next != *cur {
				feedsParamsChanged++
			}
			if next.MaxFeeds < cur.MaxFeeds {
				eligible := 0
				for _, t := range m.totals() {
					if t.Cmp(bi(next.Thr)) >= 0 {
						eligible++
					}
				}
				if next.MaxFeeds < eligible {
					maxFeedsLoweredBelowEligible++
				}
			}
			if next.MaxFeeds > cur.MaxFeeds {
				maxFeedsRaised++
			}
			if next.Thr != cur.Thr {
				thresholdChanged++
			}
			if next.UpdInt != cur.UpdInt {
				updIntChanged++
			}
			*cur, fpChain = next, np
		})
	}

	// runReimport: the state is exported with the application's own genesis export, a NEW application instance is
	// initialised from the exported document and the chain continues on it. The (empty) first block of the new
	// instance goes through the ordinary state check: every invariant of the statement must have survived.
	runReimport := func() bool {
		if len(pend) > 0 && !flush(1) {
			return false
		}
		withVote, belowLock := false, false
		for i := 0; i < c.NVoters; i++ {
			if len(m.standing[i]) > 0 {
				withVote = true
			}
			if m.lock(i).Cmp(m.power(i)) > 0 {
				belowLock = true
			}
		}
		res, err := ch.Reimport(time.Second)
		if err != nil {
			v.Failf("C07/genesis-reimport-failed", "after height %d: %v", ch.Height, err)
			return false
		}
		if len(res.Resp.TxResults) != 0 {
			v.Failf("C07/harness", "block %d: tx results in the empty block after a re-import", res.Height)
			return false
		}
		reimports++
		if withVote {
			reimportWithVote++
		}
		if belowLock {
			reimportBelowLock++
		}
		justReimported, sanitySig = true, "C07/reimport-power-mismatch"
		checkState(res.Height, res.Time)
		justReimported, sanitySig = false, "C07/harness-power-model"
		return v.Violation == ""
	}

	for _, o := range c.Ops {
		if o.Kind == "end" {
			n := o.N
			if n < 1 {
				n = 1
			}
			if n > 8 {
				n = 8
			}
			for i := 0; i < n; i++ {
				if !flush(o.Dt) {
					return v
				}
			}
			continue
		}
		if o.Kind == "denoms" {
			if !runDenoms(o.Set) {
				return v
			}
			continue
		}
		if o.Kind == "fparams" {
			if !runFeedsParams(o) {
				return v
			}
			continue
		}
		if o.Kind == "reimport" {
			if !runReimport() {
				return v
			}
			continue
		}
		addTx(o)
	}
	// tail: commit what is pending and run across one full update interval
	for i := 0; i <= cur.UpdInt; i++ {
		if !flush(1) {
			return v
		}
	}

	voters := map[string]int{}
	for _, sv := range m.standing {
		for _, s := range sv {
			voters[s.ID]++
			if voters[s.ID] >= 2 {
				multiVoterSignal = true
			}
		}
	}

	cls := func(n int, label string) {
		if n > 0 {
			v.Class(label)
		}
	}
	cls(accepted, "vote-accepted")
	cls(rejectedOver, "vote-rejected-over-power")
	cls(revote2, "revote-changing-2+-signals")
	cls(bEq, "vote-sum==power")
	cls(bPlus, "vote-sum==power+1")
	cls(bMinus, "vote-sum==power-1")
	cls(wrapVotes, "vote-true-sum>int64")
	cls(wrapTo0, "vote-wraps-to-0")
	cls(wrapAffordable, "vote-wraps-to-affordable")
	cls(emptyVotes, "empty-vote")
	cls(dupVotes, "duplicate-ids")
	cls(tooMany, "too-many-signals")
	cls(totalOverflowRej, "signal-total-overflow-rejected")
	cls(withdrawRej, "withdraw-below-lock-rejected")
	cls(revoteSame, "revote-same-total")
	cls(withdrawAfterSame, "withdraw-after-same-total-revote")
	cls(hugeLockObs, "lock>=2^63")
	cls(withdrawRejHugeLock, "withdraw-below-lock-rejected-with-lock>=2^63")
	cls(feedsParamsChanged, "feeds-params-changed")
	cls(maxFeeds0AtUpdate, "max-current-feeds-0-at-update-block")
	cls(maxFeeds0AtUpdateWithEligible, "max-current-feeds-0-at-update-block-with-eligible-signals")
	cls(maxFeedsLoweredBelowEligible, "max-current-feeds-lowered-below-eligible-count")
	cls(maxFeedsRaised, "max-current-feeds-raised")
	cls(thresholdChanged, "power-threshold-changed")
	cls(updIntChanged, "update-interval-changed")
	cls(voteRefusedOverCurrentMax, "vote-refused-more-signals-than-current-max")
	cls(voteAcceptedAfterParams, "vote-accepted-after-feeds-params-change")
	cls(reimports, "genesis-reimport")
	cls(reimportWithVote, "genesis-reimport-with-standing-vote")
	cls(reimportBelowLock, "genesis-reimport-while-power-below-lock")
	cls(reimportFeedsRecomputed, "genesis-reimport-changes-current-feeds")
	cls(acceptedAfterReimport, "vote-accepted-after-reimport")
	cls(rejectedOverAfterReimport, "vote-rejected-over-power-after-reimport")
	cls(withdrawRejAfterReimport, "withdraw-below-lock-rejected-after-reimport")
	cls(updateAfterReimport, "update-block-after-reimport")
	cls(denomsChanged, "denoms-changed")
	cls(denomsReallowed, "denom-reallowed")
	cls(powerBelowLockObs, "power-below-lock")
	cls(revoteSameBelow, "revote-same-total-while-power-below-lock")
	cls(revoteNotGrowingBelow, "revote-lower-total-above-power-while-below-lock")
	cls(revoteWithinPowerBelow, "revote-within-power-while-below-lock")
	cls(withdrawWhileBelow, "withdraw-while-power-below-lock")
	cls(delegateRejBelow, "delegate-rejected-while-power-below-lock")
	cls(updateWithFeeds, "update-with-feeds")
	cls(feedsCut, "more-eligible-than-max")
	cls(tieCut, "tie-at-cut")
	cls(thrEq, "feed-power==threshold")
	cls(intervalMin, "interval-clamped-to-min")
	cls(intervalStep, "interval-stepped")
	if multiVoterSignal {
		v.Class("signal-with-2+-voters")
	}
	if c.Rich {
		v.Class("rich-voters")
	}
	if c.NoWrap {
		v.Class("mode-nowrap")
	}
	v.Count("votes_accepted", int64(accepted))
	v.Count("votes_rejected_over_power", int64(rejectedOver))
	v.Count("boundary_votes", int64(boundary))
	v.Count("wrap_votes", int64(wrapVotes))
	v.Count("withdraw_below_lock_rejected", int64(withdrawRej))
	v.Count("revote_same_total", int64(revoteSame))
	v.Count("withdraw_after_same_total_revote", int64(withdrawAfterSame))
	v.Count("feeds_params_changed", int64(feedsParamsChanged))
	v.Count("update_blocks_with_max_current_feeds_0", int64(maxFeeds0AtUpdate))
	v.Count("update_blocks_with_max_current_feeds_0_and_eligible_signals", int64(maxFeeds0AtUpdateWithEligible))
	v.Count("max_current_feeds_lowered_below_eligible_count", int64(maxFeedsLoweredBelowEligible))
	v.Count("votes_refused_more_signals_than_current_max", int64(voteRefusedOverCurrentMax))
	v.Count("genesis_reimports", int64(reimports))
	v.Count("genesis_reimports_with_standing_vote", int64(reimportWithVote))
	v.Count("genesis_reimports_while_power_below_lock", int64(reimportBelowLock))
	v.Count("reimport_current_feeds_recomputed_differently", int64(reimportFeedsRecomputed))
	v.Count("reimport_current_feeds_carried", int64(reimportFeedsCarried))
	v.Count("last_update_block_unasserted_after_reimport", int64(lastUpdateUnasserted))
	v.Count("votes_accepted_after_reimport", int64(acceptedAfterReimport))
	v.Count("votes_rejected_over_power_after_reimport", int64(rejectedOverAfterReimport))
	v.Count("withdraw_below_lock_rejected_after_reimport", int64(withdrawRejAfterReimport))
	v.Count("denoms_changed", int64(denomsChanged))
	v.Count("power_below_lock_voter_blocks", int64(powerBelowLockObs))
	v.Count("revote_same_total_while_below_lock", int64(revoteSameBelow))
	v.Count("revote_lower_total_above_power_while_below_lock", int64(revoteNotGrowingBelow))
	v.Count("revote_within_power_while_below_lock", int64(revoteWithinPowerBelow))
	v.Count("votes_accepted_while_below_lock", int64(voteAcceptedBelow))
	v.Count("votes_rejected_while_below_lock", int64(voteRejectedBelow))
	v.Count("withdraw_while_below_lock", int64(withdrawWhileBelow))
	v.Count("withdraw_rejected_while_below_lock", int64(withdrawRejWhileBelow))
	v.Count("delegate_rejected_while_below_lock", int64(delegateRejBelow))
	v.Count("delegate_ok_while_below_lock", int64(delegateOKBelow))
	v.Count("stake_ok_while_below_lock", int64(stakeOKBelow))
	v.Count("gov_proposal_not_passed", int64(govNotPassed))
	v.Count("inapplicable_ops", int64(inapplicable))
	v.Count("blocks", ch.Height)
	// DESIGN NT: >=1 re-vote changing >=2 signals and >=1 vote at a power boundary or with a wrapping sum
	v.NonTrivial = revote2 >= 1 && (boundary >= 1 || wrapVotes >= 1)
	return v
}

func TestC07(t *testing.T) { pbt.Check(t, "C07", genC07, runC07) }
