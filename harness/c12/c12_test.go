// Package c12 checks property C12: relay proofs produced by the proof service verify, with a port of the bridge
// algorithm (ref/bridge.go), against the application's real store layout and against headers/commits that the
// harness builds and signs the way CometBFT does.
package c12

import (
	"bytes"
	"context"
	"crypto/sha256"
	"fmt"
	"sort"
	"testing"
	"time"

	"pgregory.net/rapid"

	abci "github.com/cometbft/cometbft/abci/types"
	"github.com/cometbft/cometbft/crypto/secp256k1"
	cmtbytes "github.com/cometbft/cometbft/libs/bytes"
	cmtversion "github.com/cometbft/cometbft/proto/tendermint/version"
	rpcclient "github.com/cometbft/cometbft/rpc/client"
	coretypes "github.com/cometbft/cometbft/rpc/core/types"
	cmttypes "github.com/cometbft/cometbft/types"

	"github.com/cosmos/cosmos-sdk/client"
	"github.com/cosmos/cosmos-sdk/server/config"
	sdk "github.com/cosmos/cosmos-sdk/types"

	band "github.com/bandprotocol/chain/v3/app"
	"github.com/bandprotocol/chain/v3/client/grpc/oracle/proof"
	oracletypes "github.com/bandprotocol/chain/v3/x/oracle/types"

	"verif/harness/gen"
	"verif/harness/pbt"
	"verif/harness/ref"
	"verif/harness/sim"
)

// ---- case --------------------------------------------------------------------------------------------------

type c12Req struct {
	Script  int    `json:"s"`
	Ask     int    `json:"ask"`
	Min     int    `json:"min"`
	CallLen int    `json:"cl"`
	Client  string `json:"c,omitempty"`
}

// c12Blk is one block of the oracle history: reports for the requests issued in the previous block, then new requests.
type c12Blk struct {
	Report  int      `json:"rep"` // 0 nobody reports, 1 every chosen validator, 2 exactly min of them
	DataLen int      `json:"dl"`
	Reqs    []c12Req `json:"reqs,omitempty"`
	Dt      int      `json:"dt"`
}

type c12Val struct {
	Power   int64 `json:"p"`
	Flag    int   `json:"f"` // 1 absent, 2 commit, 3 nil (CometBFT BlockIDFlag values)
	TsSec   int64 `json:"ts"`
	TsNanos int64 `json:"tn"`
}

// c12Hdr is everything the harness, playing CometBFT, draws about one block: header fields, validator set, commit.
type c12Hdr struct {
	ChainID    string   `json:"chain"`
	Overlong   bool     `json:"overlong,omitempty"` // chain id deliberately beyond the single-byte vote length (outside the property's domain)
	VerBlock   uint64   `json:"vb"`
	VerApp     uint64   `json:"va"`
	TimeSec    int64    `json:"t"`
	TimeNanos  int64    `json:"tn"`
	Round      int32    `json:"round"`
	PartsTotal uint32   `json:"parts"`
	Seed       int      `json:"seed"`  // all opaque header hashes derive from it
	Empty      int      `json:"empty"` // bit mask of optional header hashes left empty
	KeySeed    int      `json:"keys"`
	Proposer   int      `json:"prop"`
	Vals       []c12Val `json:"vals"`
}

type c12Query struct {
	Kind   string `json:"k"` // single | multi | count
	Height int    `json:"h"` // late-bound: state height = 2 + Height mod (last-1)
	Ids    []int  `json:"ids,omitempty"`
	Absent bool   `json:"absent,omitempty"` // ask for a result that is not stored at that height
	Latest bool   `json:"latest,omitempty"` // height 0 = "latest" on the RPC side
	Hdr    c12Hdr `json:"hdr"`
}

type c12Case struct {
	NVals      int        `json:"nvals"`
	Expiration uint64     `json:"expiration"`
	Blocks     []c12Blk   `json:"blocks"`
	Queries    []c12Query `json:"queries"`
}

// ---- generators --------------------------------------------------------------------------------------------

func uvarintLen(x uint64) int {
	n := 1
	for x >= 0x80 {
		x >>= 7
		n++
	}
	return n
}

// length of the protobuf Timestamp body for (sec, nanos)
func tsLen(sec, nanos int64) int {
	n := 0
	if sec != 0 {
		n += 1 + uvarintLen(uint64(sec))
	}
	if nanos != 0 {
		n += 1 + uvarintLen(uint64(nanos))
	}
	return n
}

func genNanos(rt *rapid.T, label string) int64 {
	switch gen.Pick(rt, label+"-kind", 3, 3, 4) {
	case 0:
		return 0
	case 1:
		return gen.OneOf[int64](rt, label+"-edge", 1, 127, 128, 16383, 16384, 2097151, 2097152, 268435455, 268435456, 999999999)
	}
	return rapid.Int64Range(1, 999999999).Draw(rt, label)
}

// vote timestamps: seconds with a 5-byte varint (2^28 .. 2^35-1), the only size the fixed vote format admits
func genVoteSec(rt *rapid.T, label string) int64 {
	switch gen.Pick(rt, label+"-kind", 2, 3, 3) {
	case 0:
		return gen.OneOf[int64](rt, label+"-edge", 1<<28, 1<<28+1, 1<<31-1, 1<<31, 1<<32-1, 1<<32, 1<<35-1)
	case 1:
		return 1_700_000_000 + rapid.Int64Range(0, 100_000_000).Draw(rt, label+"-now")
	}
	return rapid.Int64Range(1<<28, 1<<35-1).Draw(rt, label)
}

func genHdr(rt *rapid.T) c12Hdr {
	h := c12Hdr{}
	h.VerBlock = gen.OneOf[uint64](rt, "verblock", 11, 11, 11, 0, 1, 127, 128, 1<<32, 1<<63, 1<<64-1)
	h.VerApp = gen.OneOf[uint64](rt, "verapp", 0, 0, 1, 3, 128, 1<<64-1)
	switch gen.Pick(rt, "time-kind", 2, 3, 3) {
	case 0:
		h.TimeSec = gen.OneOf[int64](rt, "time-edge", 1, 127, 128, 16384, 1<<28-1, 1<<28, 1<<31-1, 1<<31, 1<<32, 1<<35-1)
	case 1:
		h.TimeSec = 1_700_000_000 + rapid.Int64Range(0, 100_000_000).Draw(rt, "time-now")
	default:
		h.TimeSec = rapid.Int64Range(1, 1<<35-1).Draw(rt, "time")
	}
	h.TimeNanos = genNanos(rt, "time-nanos")
	if gen.Chance(rt, "round0", 1, 2) {
		h.Round = 0
	} else if gen.Chance(rt, "round-edge", 2, 3) {
		h.Round = gen.OneOf[int32](rt, "round-e", 1, 2, 127, 128, 255, 256, 65535, 65536, 1<<31-2, 1<<31-1)
	} else {
		h.Round = rapid.Int32Range(1, 1<<31-1).Draw(rt, "round")
	}
	if gen.Chance(rt, "parts-edge", 2, 3) {
		h.PartsTotal = gen.OneOf[uint32](rt, "parts-e", 1, 1, 1, 2, 3, 46, 47, 48, 126, 127)
	} else {
		h.PartsTotal = rapid.Uint32Range(1, 127).Draw(rt, "parts")
	}
	h.Seed = rapid.IntRange(0, 1<<30).Draw(rt, "seed")
	if gen.Chance(rt, "some-empty", 1, 3) {
		h.Empty = gen.Uniform(rt, "empty", 64)
	}
	h.KeySeed = rapid.IntRange(0, 1<<20).Draw(rt, "keyseed")
	n := rapid.IntRange(1, 12).Draw(rt, "nvals")
	h.Proposer = gen.Uniform(rt, "proposer", n)
	maxTs := 6
	for i := 0; i < n; i++ {
		val := c12Val{Power: rapid.Int64Range(1, 1_000_000).Draw(rt, "power"), TsSec: genVoteSec(rt, "ts"), TsNanos: genNanos(rt, "ts-nanos")}
		val.Flag = []int{2, 3, 1}[gen.Pick(rt, "flag", 7, 2, 2)]
		if i == 0 {
			val.Flag = 2 // at least one precommit for the block, otherwise there is nothing to relay
		}
		if val.Flag == 2 {
			if l := tsLen(val.TsSec, val.TsNanos); l > maxTs {
				maxTs = l
			}
		}
		h.Vals = append(h.Vals, val)
	}
	// vote body = type(2) height(9) [round(9)] blockid(2+72) timestamp(2+ts) chainid(2+n) must fit one length byte (<= 127)
	budget := 127 - (2 + 9 + 2 + 72 + 2 + maxTs + 2)
	if h.Round != 0 {
		budget -= 9
	}
	n2 := gen.Range(rt, "chainlen", 1, 40) // clamped to what the one-byte vote length admits (17..32 depending on round/timestamps)
	if n2 > budget {
		n2 = gen.Range(rt, "chainlen-in", 1, budget)
		if gen.Chance(rt, "chainlen-max", 1, 3) {
			n2 = budget
		}
	}
	if gen.Chance(rt, "overlong", 1, 25) && budget < 40 {
		n2 = gen.Range(rt, "chainlen-over", budget+1, 40)
		h.Overlong = true
	}
	h.ChainID = rapid.StringOfN(rapid.RuneFrom([]rune("abcdefghijklmnopqrstuvwxyz0123456789-_")), n2, n2, -1).Draw(rt, "chain")
	return h
}

func genC12(rt *rapid.T) c12Case {
	c := c12Case{NVals: rapid.IntRange(1, 4).Draw(rt, "nvals")}
	c.Expiration = gen.OneOf[uint64](rt, "exp", 2, 3, 3, 5, 100)
	nb := rapid.IntRange(5, 40).Draw(rt, "nblocks")
	for i := 0; i < nb; i++ {
		b := c12Blk{Report: []int{1, 2, 0}[gen.Pick(rt, "report", 8, 2, 1)], DataLen: rapid.IntRange(0, 16).Draw(rt, "datalen"), Dt: gen.OneOf(rt, "dt", 0, 1, 1, 3, 6, 60)}
		nr := []int{0, 1, 2, 3, 6}[gen.Pick(rt, "nreq", 3, 5, 3, 2, 1)]
		if i == 0 {
			nr = 1 + nr%3 // the history starts with a request that block 1 resolves
		}
		if i == 1 {
			b.Report = 1
		}
		for j := 0; j < nr; j++ {
			ask := gen.Range(rt, "ask", 1, c.NVals)
			r := c12Req{Script: gen.Pick(rt, "script", 3, 5, 2), Ask: ask, Min: gen.Range(rt, "min", 1, ask)}
			r.CallLen = rapid.IntRange(0, 40).Draw(rt, "calllen")
			if gen.Chance(rt, "client", 2, 3) {
				r.Client = rapid.StringMatching(`[a-z0-9]{1,24}`).Draw(rt, "clientid")
			}
			b.Reqs = append(b.Reqs, r)
		}
		c.Blocks = append(c.Blocks, b)
	}
	nq := 5
	if pbt.Tier() == "thorough" {
		nq = 10
	}
	for i := 0; i < nq; i++ {
		q := c12Query{Kind: []string{"single", "multi", "count"}[gen.Pick(rt, "kind", 6, 3, 2)], Height: rapid.IntRange(0, 64).Draw(rt, "qheight")}
		q.Latest = gen.Chance(rt, "latest", 1, 5)
		switch q.Kind {
		case "single":
			q.Ids = []int{rapid.IntRange(0, 255).Draw(rt, "id")}
			q.Absent = gen.Chance(rt, "absent", 1, 15)
		case "multi":
			k := rapid.IntRange(1, 4).Draw(rt, "nids")
			for j := 0; j < k; j++ {
				q.Ids = append(q.Ids, rapid.IntRange(0, 255).Draw(rt, "id"))
			}
		}
		q.Hdr = genHdr(rt)
		c.Queries = append(c.Queries, q)
	}
	return c
}

// ---- the harness as CometBFT: header, validator set, signed commit ------------------------------------------

type builtVal struct {
	addr      []byte // CometBFT address
	eth       []byte // eth-style address of the same key
	flag      cmttypes.BlockIDFlag
	signBytes []byte // CometBFT's canonical sign bytes of this validator's precommit
}

type builtBlock struct {
	signed  *cmttypes.SignedHeader
	vals    []builtVal
	commits int
}

func seedHash(seed int, name string) []byte {
	h := sha256.Sum256([]byte(fmt.Sprintf("c12-%d-%s", seed, name)))
	return h[:]
}

func buildBlock(s c12Hdr, height int64, appHash []byte) (*builtBlock, error) {
	if len(s.Vals) == 0 || len(s.Vals) > 64 {
		return nil, fmt.Errorf("bad validator count %d", len(s.Vals))
	}
	opt := func(bit int, name string) cmtbytes.HexBytes {
		if s.Empty&(1<<bit) != 0 {
			return nil
		}
		return seedHash(s.Seed, name)
	}
	privs := map[string]secp256k1.PrivKey{}
	specOf := map[string]c12Val{}
	var vals []*cmttypes.Validator
	for i, vs := range s.Vals {
		if vs.Power < 1 || vs.Power > 1<<40 || vs.TsNanos < 0 || vs.TsNanos > 999999999 || vs.TsSec < 0 || vs.TsSec > 1<<36 {
			return nil, fmt.Errorf("bad validator spec %+v", vs)
		}
		priv := secp256k1.GenPrivKeySecp256k1([]byte(fmt.Sprintf("c12-val-%d-%d", s.KeySeed, i)))
		val := cmttypes.NewValidator(priv.PubKey(), vs.Power)
		vals = append(vals, val)
		privs[string(val.Address)] = priv
		specOf[string(val.Address)] = vs
	}
	vset := cmttypes.NewValidatorSet(vals)
	if s.TimeNanos < 0 || s.TimeNanos > 999999999 || s.TimeSec < 0 || s.TimeSec > 1<<36 || s.PartsTotal == 0 || s.Round < 0 {
		return nil, fmt.Errorf("bad header spec")
	}
	hdr := &cmttypes.Header{
		Version: cmtversion.Consensus{Block: s.VerBlock, App: s.VerApp},
		ChainID: s.ChainID,
		Height:  height,
		Time:    time.Unix(s.TimeSec, s.TimeNanos).UTC(),
		LastBlockID: cmttypes.BlockID{Hash: seedHash(s.Seed, "last-block"),
			PartSetHeader: cmttypes.PartSetHeader{Total: 1 + uint32(s.Seed%7), Hash: seedHash(s.Seed, "last-parts")}},
		LastCommitHash:     opt(1, "last-commit"),
		DataHash:           opt(2, "data"),
		ValidatorsHash:     vset.Hash(),
		NextValidatorsHash: seedHash(s.Seed, "next-vals"),
		ConsensusHash:      opt(3, "consensus"),
		AppHash:            append([]byte(nil), appHash...),
		LastResultsHash:    opt(4, "last-results"),
		EvidenceHash:       opt(5, "evidence"),
		ProposerAddress:    vset.Validators[s.Proposer%len(vset.Validators)].Address,
	}
	if s.Empty&1 != 0 {
		hdr.LastBlockID = cmttypes.BlockID{} // as in the first block of a chain
	}
	blockHash := hdr.Hash()
	if len(blockHash) != 32 {
		return nil, fmt.Errorf("header does not hash")
	}
	commit := &cmttypes.Commit{Height: height, Round: s.Round,
		BlockID: cmttypes.BlockID{Hash: blockHash, PartSetHeader: cmttypes.PartSetHeader{Total: s.PartsTotal, Hash: seedHash(s.Seed, "parts")}}}
	for _, val := range vset.Validators {
		vs := specOf[string(val.Address)]
		switch vs.Flag {
		case 2, 3:
			commit.Signatures = append(commit.Signatures, cmttypes.CommitSig{BlockIDFlag: cmttypes.BlockIDFlag(vs.Flag), ValidatorAddress: val.Address,
				Timestamp: time.Unix(vs.TsSec, vs.TsNanos).UTC()})
		default:
			commit.Signatures = append(commit.Signatures, cmttypes.NewCommitSigAbsent())
		}
	}
	out := &builtBlock{signed: &cmttypes.SignedHeader{Header: hdr, Commit: commit}}
	for i, val := range vset.Validators {
		bv := builtVal{addr: val.Address, flag: commit.Signatures[i].BlockIDFlag}
		eth, err := ref.BridgeEthAddress(val.PubKey.Bytes())
		if err != nil {
			return nil, err
		}
		bv.eth = eth
		if bv.flag != cmttypes.BlockIDFlagAbsent {
			vote := commit.GetVote(int32(i))
			bv.signBytes = cmttypes.VoteSignBytes(s.ChainID, vote.ToProto())
			sig, err := privs[string(val.Address)].Sign(bv.signBytes)
			if err != nil {
				return nil, err
			}
			if !val.PubKey.VerifySignature(bv.signBytes, sig) {
				return nil, fmt.Errorf("self-check: signature does not verify")
			}
			commit.Signatures[i].Signature = sig
		}
		if bv.flag == cmttypes.BlockIDFlagCommit {
			out.commits++
		}
		out.vals = append(out.vals, bv)
	}
	return out, nil
}

// stubRPC is the node the proof service talks to: commits come from the harness, store queries from the real app.
type stubRPC struct {
	client.CometRPC // nil: any method other than the two below is not expected to be called
	app             *band.BandApp
	commits         map[int64]*cmttypes.SignedHeader
	latest          int64
	nCommit, nQuery int
}

func (s *stubRPC) Commit(_ context.Context, height *int64) (*coretypes.ResultCommit, error) {
	s.nCommit++
	h := s.latest
	if height != nil {
		h = *height
	}
	sh, ok := s.commits[h]
	if !ok {
		return nil, fmt.Errorf("height %d is not available", h)
	}
	return &coretypes.ResultCommit{SignedHeader: *sh, CanonicalCommit: true}, nil
}

func (s *stubRPC) ABCIQueryWithOptions(ctx context.Context, path string, data cmtbytes.HexBytes, opts rpcclient.ABCIQueryOptions) (*coretypes.ResultABCIQuery, error) {
	s.nQuery++
	resp, err := s.app.Query(ctx, &abci.RequestQuery{Path: path, Data: data, Height: opts.Height, Prove: opts.Prove})
	if err != nil {
		return nil, err
	}
	return &coretypes.ResultABCIQuery{Response: *resp}, nil
}

// ---- conversions proof structs -> reference structs ----------------------------------------------------------

func convPaths(in []proof.IAVLMerklePath) []ref.BridgeIAVLStep {
	out := make([]ref.BridgeIAVLStep, 0, len(in))
	for _, p := range in {
		out = append(out, ref.BridgeIAVLStep{IsDataOnRight: p.IsDataOnRight, SubtreeHeight: p.SubtreeHeight, SubtreeSize: p.SubtreeSize,
			SubtreeVersion: p.SubtreeVersion, SiblingHash: p.SiblingHash})
	}
	return out
}

func convRelay(b proof.BlockRelayProof) ref.BridgeRelay {
	m, p := b.MultiStoreProof, b.BlockHeaderMerkleParts
	r := ref.BridgeRelay{
		MultiStore: ref.BridgeMultiStore{OracleIAVLStateHash: m.OracleIAVLStateHash, MintStoreMerkleHash: m.MintStoreMerkleHash,
			ParamsToRestakeStoresMerkleHash: m.ParamsToRestakeStoresMerkleHash, RollingseedToTransferStoresMerkleHash: m.RollingseedToTransferStoresMerkleHash,
			TssToUpgradeStoresMerkleHash: m.TssToUpgradeStoresMerkleHash, AuthToIcahostStoresMerkleHash: m.AuthToIcahostStoresMerkleHash},
		Parts: ref.BridgeHeaderParts{VersionAndChainIdHash: p.VersionAndChainIdHash, Height: p.Height, TimeSecond: p.TimeSecond, TimeNanoSecond: p.TimeNanoSecond,
			LastBlockIdAndOther: p.LastBlockIdAndOther, NextValidatorHashAndConsensusHash: p.NextValidatorHashAndConsensusHash,
			LastResultsHash: p.LastResultsHash, EvidenceAndProposerHash: p.EvidenceAndProposerHash},
		Common: ref.BridgeCommonVote{SignedDataPrefix: b.CommonEncodedVotePart.SignedDataPrefix, SignedDataSuffix: b.CommonEncodedVotePart.SignedDataSuffix},
	}
	for _, s := range b.Signatures {
		r.Signatures = append(r.Signatures, ref.BridgeSignature{R: s.R, S: s.S, V: s.V, EncodedTimestamp: s.EncodedTimestamp})
	}
	return r
}

func convResult(r oracletypes.Result) ref.BridgeResult {
	return ref.BridgeResult{ClientID: r.ClientID, OracleScriptID: uint64(r.OracleScriptID), Params: r.Calldata, AskCount: r.AskCount, MinCount: r.MinCount,
		RequestID: uint64(r.RequestID), AnsCount: r.AnsCount, RequestTime: uint64(r.RequestTime), ResolveTime: uint64(r.ResolveTime),
		ResolveStatus: uint8(r.ResolveStatus), Result: r.Result}
}

func eqPaths(a, b []ref.BridgeIAVLStep) bool {
	if len(a) != len(b) {
		return false
	}
	for i := range a {
		if a[i].IsDataOnRight != b[i].IsDataOnRight || a[i].SubtreeHeight != b[i].SubtreeHeight || a[i].SubtreeSize != b[i].SubtreeSize ||
			a[i].SubtreeVersion != b[i].SubtreeVersion || !bytes.Equal(a[i].SiblingHash, b[i].SiblingHash) {
			return false
		}
	}
	return true
}

func eqResult(a, b ref.BridgeResult) bool {
	return a.ClientID == b.ClientID && a.OracleScriptID == b.OracleScriptID && bytes.Equal(a.Params, b.Params) && a.AskCount == b.AskCount &&
		a.MinCount == b.MinCount && a.RequestID == b.RequestID && a.AnsCount == b.AnsCount && a.RequestTime == b.RequestTime &&
		a.ResolveTime == b.ResolveTime && a.ResolveStatus == b.ResolveStatus && bytes.Equal(a.Result, b.Result)
}

func eqRelay(a, b ref.BridgeRelay) string {
	am, bm := a.MultiStore, b.MultiStore
	for _, p := range [][2][]byte{{am.OracleIAVLStateHash, bm.OracleIAVLStateHash}, {am.MintStoreMerkleHash, bm.MintStoreMerkleHash},
		{am.ParamsToRestakeStoresMerkleHash, bm.ParamsToRestakeStoresMerkleHash}, {am.RollingseedToTransferStoresMerkleHash, bm.RollingseedToTransferStoresMerkleHash},
		{am.TssToUpgradeStoresMerkleHash, bm.TssToUpgradeStoresMerkleHash}, {am.AuthToIcahostStoresMerkleHash, bm.AuthToIcahostStoresMerkleHash}} {
		if !bytes.Equal(p[0], p[1]) {
			return "multistore"
		}
	}
	ap, bp := a.Parts, b.Parts
	if ap.Height != bp.Height || ap.TimeSecond != bp.TimeSecond || ap.TimeNanoSecond != bp.TimeNanoSecond ||
		!bytes.Equal(ap.VersionAndChainIdHash, bp.VersionAndChainIdHash) || !bytes.Equal(ap.LastBlockIdAndOther, bp.LastBlockIdAndOther) ||
		!bytes.Equal(ap.NextValidatorHashAndConsensusHash, bp.NextValidatorHashAndConsensusHash) || !bytes.Equal(ap.LastResultsHash, bp.LastResultsHash) ||
		!bytes.Equal(ap.EvidenceAndProposerHash, bp.EvidenceAndProposerHash) {
		return "header parts"
	}
	if !bytes.Equal(a.Common.SignedDataPrefix, b.Common.SignedDataPrefix) || !bytes.Equal(a.Common.SignedDataSuffix, b.Common.SignedDataSuffix) {
		return "common vote part"
	}
	if len(a.Signatures) != len(b.Signatures) {
		return "signature count"
	}
	for i := range a.Signatures {
		x, y := a.Signatures[i], b.Signatures[i]
		if !bytes.Equal(x.R, y.R) || !bytes.Equal(x.S, y.S) || x.V != y.V || !bytes.Equal(x.EncodedTimestamp, y.EncodedTimestamp) {
			return fmt.Sprintf("signature %d", i)
		}
	}
	return ""
}

// ---- checking one proof ---------------------------------------------------------------------------------------

type relayStats struct {
	sigs, missing int
}

// checkHeaderOutcome compares what the reference algorithm derived from the header/signature part with the truth
// the harness holds (CometBFT's own header hash and canonical vote bytes).
func checkHeaderOutcome(v *pbt.Verdict, out *ref.BridgeRelayOutcome, stage string, err error, blk *builtBlock, st *relayStats) {
	hdr := blk.signed.Header
	if stage == "header" || !bytes.Equal(out.BlockHash, hdr.Hash()) {
		v.Failf("C12/block-hash", "header parts recombine to %x (%v), CometBFT's hash of the header at height %d is %x", out.BlockHash, err, hdr.Height, []byte(hdr.Hash()))
		return
	}
	switch stage {
	case "vote":
		v.Failf("C12/vote-format", "vote bytes outside the fixed format: %v", err)
		return
	case "signature":
		v.Failf("C12/sig-recover", "signature does not recover: %v", err)
		return
	case "order":
		v.Failf("C12/sig-order", "signers not strictly ascending: %v", err)
		return
	}
	byEth := map[string]*builtVal{}
	for i := range blk.vals {
		byEth[string(blk.vals[i].eth)] = &blk.vals[i]
	}
	seen := map[string]bool{}
	for i, signer := range out.Signers {
		bv := byEth[string(signer)]
		if bv == nil || bv.flag != cmttypes.BlockIDFlagCommit {
			v.Failf("C12/sig-signer", "signature %d recovers %x, which is not a validator that pre-committed block %d", i, signer, hdr.Height)
			return
		}
		if !bytes.Equal(out.Messages[i], bv.signBytes) {
			v.Failf("C12/sign-bytes", "signature %d: rebuilt vote bytes %x differ from CometBFT's canonical sign bytes %x", i, out.Messages[i], bv.signBytes)
			return
		}
		seen[string(signer)] = true
	}
	st.sigs = len(out.Signers)
	for _, bv := range blk.vals {
		if bv.flag == cmttypes.BlockIDFlagCommit && !seen[string(bv.eth)] {
			st.missing++
		}
	}
}

func checkRelay(v *pbt.Verdict, relay proof.BlockRelayProof, relayBlob []byte, blk *builtBlock, st *relayStats) {
	a := convRelay(relay)
	hdr := blk.signed.Header
	out, stage, err := ref.BridgeRelayBlock(a, hdr.ChainID)
	if stage == "multistore" || !bytes.Equal(out.AppHash, hdr.AppHash) {
		v.Failf("C12/app-hash", "oracle root + multistore siblings give %x (%v), the application's app hash committed in header %d is %x",
			out.AppHash, err, hdr.Height, []byte(hdr.AppHash))
		return
	}
	checkHeaderOutcome(v, out, stage, err, blk, st)
	if v.Violation != "" {
		return
	}
	b, err := ref.BridgeDecodeRelay(relayBlob)
	if err != nil {
		v.Failf("C12/abi-decode", "block relay bytes do not decode: %v", err)
		return
	}
	if d := eqRelay(a, b); d != "" {
		v.Failf("C12/abi-mismatch", "ABI-decoded block relay differs from the returned proof in: %s", d)
	}
}

// ---- history -----------------------------------------------------------------------------------------------------

type c12Hist struct {
	ch         *sim.Chain
	appHash    map[int64][]byte
	resolvedAt map[uint64]int64
	statuses   map[oracletypes.ResolveStatus]bool
}

var c12ScriptEids = [][]uint64{{1, 2}, {1}, {1}}

func buildHistory(c c12Case, v *pbt.Verdict) *c12Hist {
	n := c.NVals
	if n < 1 || n > 8 {
		v.Failf("harness", "bad nvals")
		return nil
	}
	vals := make([]sim.ValSpec, n)
	for i := range vals {
		vals[i] = sim.ValSpec{Tokens: int64(10+i) * 1_000_000}
	}
	op := oracletypes.DefaultParams()
	op.ExpirationBlockCount = c.Expiration
	op.InactivePenaltyDuration = 0
	ch, err := sim.New(sim.Config{
		NumAccounts: 2, Validators: vals, Oracle: &op,
		DataSources: []sim.DSSpec{{Exec: []byte("ds-one-executable-bytes-0123456789abcdef"), Treasury: 1}, {Exec: []byte("ds-two-executable-bytes-0123456789abcdef"), Treasury: 1}},
		Scripts:     [][]byte{sim.ScriptAsk([]int{1, 2}, "ok"), sim.ScriptEcho(1), sim.ScriptAsk([]int{2}, "")},
	}, 0)
	if err != nil {
		v.Failf("harness", "sim.New: %v", err)
		return nil
	}
	h := &c12Hist{ch: ch, appHash: map[int64][]byte{}, resolvedAt: map[uint64]int64{}, statuses: map[oracletypes.ResolveStatus]bool{}}
	h.appHash[ch.Height] = append([]byte(nil), ch.AppHash...)

	type openReq struct {
		id     uint64
		script int
		min    int
		chosen []string
	}
	var prev []openReq
	byVal := map[string]*sim.Account{}
	for _, a := range ch.Vals {
		byVal[a.Val.String()] = a
	}
	step := func(b c12Blk, first bool) bool {
		var txs [][]byte
		ctx := ch.Ctx()
		for _, a := range ch.Vals {
			if first || !ch.App.OracleKeeper.GetValidatorStatus(ctx, a.Val).IsActive {
				txs = append(txs, ch.SignTx(a, oracletypes.NewMsgActivate(a.Val)))
			}
		}
		for _, r := range prev {
			k := 0
			switch b.Report {
			case 1:
				k = len(r.chosen)
			case 2:
				k = r.min
			}
			for j := 0; j < k && j < len(r.chosen); j++ {
				signer := byVal[r.chosen[j]]
				if signer == nil {
					continue
				}
				var raw []oracletypes.RawReport
				for _, e := range c12ScriptEids[r.script] {
					raw = append(raw, oracletypes.NewRawReport(oracletypes.ExternalID(e), 0, bytes.Repeat([]byte{byte(0x30 + j)}, b.DataLen)))
				}
				txs = append(txs, ch.SignTx(signer, oracletypes.NewMsgReportData(oracletypes.RequestID(r.id), raw, signer.Val)))
			}
		}
		nBefore := len(txs)
		for _, r := range b.Reqs {
			msg := oracletypes.NewMsgRequestData(oracletypes.OracleScriptID(r.Script%3+1), bytes.Repeat([]byte{byte(r.CallLen)}, r.CallLen), uint64(r.Ask), uint64(r.Min),
				r.Client, sdk.NewCoins(sdk.NewInt64Coin("uband", 1_000_000)), 100_000, 1_000_000, ch.Users[0].Addr, oracletypes.ENCODER_UNSPECIFIED)
			txs = append(txs, ch.SignTx(ch.Users[0], msg))
		}
		res, err := ch.Block(txs, time.Duration(b.Dt)*time.Second)
		if err != nil {
			v.Failf("harness", "block %d failed: %v", ch.Height+1, err)
			return false
		}
		h.appHash[res.Height] = append([]byte(nil), ch.AppHash...)
		prev = nil
		for i, r := range b.Reqs {
			tr := res.Resp.TxResults[nBefore+i]
			if tr.Code != 0 {
				v.Count("request_rejected", 1)
				continue
			}
			for _, e := range tr.Events {
				if e.Type == "request" {
					var id uint64
					fmt.Sscan(sim.Attr(e, "id"), &id)
					prev = append(prev, openReq{id: id, script: r.Script % 3, min: r.Min, chosen: sim.Attrs(e, "validator")})
				}
			}
		}
		for _, e := range sim.Events(res.Resp, "resolve") {
			var id uint64
			fmt.Sscan(sim.Attr(e, "id"), &id)
			if _, ok := h.resolvedAt[id]; !ok && id != 0 {
				h.resolvedAt[id] = res.Height
			}
		}
		return true
	}
	if !step(c12Blk{Dt: 1}, true) { // activation block (height 2)
		ch.Close()
		return nil
	}
	for _, b := range c.Blocks {
		if !step(b, false) {
			ch.Close()
			return nil
		}
	}
	return h
}

func (h *c12Hist) idsAt(height int64) []uint64 {
	var ids []uint64
	for id, at := range h.resolvedAt {
		if at <= height {
			ids = append(ids, id)
		}
	}
	sort.Slice(ids, func(i, j int) bool { return ids[i] < ids[j] })
	return ids
}

// ---- run ---------------------------------------------------------------------------------------------------------

type c12QueryOutcome struct {
	verified bool
	paths    int
	sigs     int
	old      bool
}

func safely(f func() error) (err error, panicked any) {
	defer func() {
		if r := recover(); r != nil {
			panicked = r
		}
	}()
	return f(), nil
}

func runC12(c c12Case) *pbt.Verdict {
	v := &pbt.Verdict{}
	h := buildHistory(c, v)
	if h == nil {
		return v
	}
	defer h.ch.Close()
	last := h.ch.Height
	if last < 4 {
		v.Failf("harness", "history too short")
		return v
	}
	var firstRes int64
	for _, at := range h.resolvedAt {
		if firstRes == 0 || at < firstRes {
			firstRes = at
		}
	}
	classes := map[string]bool{}
	for id := range h.resolvedAt {
		if r, err := h.ch.App.OracleKeeper.GetResult(h.ch.Ctx(), oracletypes.RequestID(id)); err == nil {
			classes["status:"+r.ResolveStatus.String()] = true
		}
	}
	v.Count("results", int64(len(h.resolvedAt)))
	v.Count("blocks", last)
	nontrivial := false
	for qi, q := range c.Queries {
		state := 2 + int64(q.Height)%(last-1) // committed state the proof is about, 2..last
		if q.Kind != "count" && firstRes != 0 && state < firstRes {
			state = firstRes
		}
		hdrHeight := state + 1 // the header that commits that state
		appHash := h.appHash[state]
		if len(appHash) != 32 {
			v.Failf("harness", "no app hash for height %d", state)
			return v
		}
		blk, err := buildBlock(q.Hdr, hdrHeight, appHash)
		if err != nil {
			v.Failf("harness", "query %d: building the block failed: %v", qi, err)
			return v
		}
		stub := &stubRPC{app: h.ch.App, commits: map[int64]*cmttypes.SignedHeader{hdrHeight: blk.signed}, latest: hdrHeight}
		reqHeight := hdrHeight
		if q.Latest {
			reqHeight = 0
		}
		srv := proof.NewProofServer(client.Context{}.WithClient(stub).WithHeight(reqHeight), config.Config{})

		exist := h.idsAt(state)
		var ids []uint64
		expectMissing := false
		for _, sel := range q.Ids {
			switch {
			case q.Absent || len(exist) == 0:
				ids = append(ids, uint64(len(h.resolvedAt))+1000+uint64(sel))
				expectMissing = true
			default:
				ids = append(ids, exist[sel%len(exist)])
			}
		}
		inDomain := !q.Hdr.Overlong && !expectMissing
		classes["kind:"+q.Kind] = true
		if q.Latest {
			classes["latest-height"] = true
		}
		if q.Hdr.Overlong {
			classes["overlong-chain-id"] = true
		}
		if q.Hdr.Round != 0 {
			classes["round>0"] = true
		}
		for _, bv := range blk.vals {
			switch bv.flag {
			case cmttypes.BlockIDFlagNil:
				classes["nil-vote"] = true
			case cmttypes.BlockIDFlagAbsent:
				classes["absent-vote"] = true
			}
			if bv.flag == cmttypes.BlockIDFlagCommit && len(bv.signBytes) == 128 {
				classes["vote-length-127"] = true
			}
		}

		var single *proof.ProofResponse
		var multi *proof.MultiProofResponse
		var count *proof.RequestCountProofResponse
		callErr, panicked := safely(func() (e error) {
			switch q.Kind {
			case "single":
				single, e = srv.Proof(context.Background(), &proof.ProofRequest{RequestId: ids[0], Height: reqHeight})
			case "multi":
				multi, e = srv.MultiProof(context.Background(), &proof.MultiProofRequest{RequestIds: ids})
			default:
				count, e = srv.RequestCountProof(context.Background(), &proof.RequestCountProofRequest{})
			}
			return e
		})
		v.Count("proofs_requested", 1)
		if !inDomain {
			// outside the statement's domain (result not stored / chain id beyond the one-byte length): statistics only
			switch {
			case panicked != nil:
				v.Count("out_of_domain_panic", 1)
			case callErr != nil:
				v.Count("out_of_domain_error", 1)
			default:
				v.Count("out_of_domain_proof_returned", 1)
			}
			continue
		}
		if panicked != nil {
			v.Failf("C12/proof-panic", "query %d (%s, state height %d, ids %v): proof service panicked: %v", qi, q.Kind, state, ids, panicked)
			return v
		}
		if callErr != nil {
			v.Failf("C12/proof-error", "query %d (%s, state height %d, ids %v): no proof produced: %v", qi, q.Kind, state, ids, callErr)
			return v
		}

		var relay proof.BlockRelayProof
		var relayBlob []byte
		var blockHeight uint64
		maxPath := 0
		oldLeaf := false
		switch q.Kind {
		case "single", "multi":
			var datas []proof.OracleDataProof
			var dataBlobs [][]byte
			var evm []byte
			if q.Kind == "single" {
				relay, blockHeight, evm = single.Result.Proof.BlockRelayProof, single.Result.Proof.BlockHeight, single.Result.EvmProofBytes
				datas = []proof.OracleDataProof{single.Result.Proof.OracleDataProof}
				rb, db, err := ref.BridgeSplitProof(evm)
				if err != nil {
					v.Failf("C12/abi-decode", "query %d: proof bytes do not decode as (bytes,bytes): %v", qi, err)
					return v
				}
				relayBlob, dataBlobs = rb, [][]byte{db}
			} else {
				relay, blockHeight, evm = multi.Result.Proof.BlockRelayProof, multi.Result.Proof.BlockHeight, multi.Result.EvmProofBytes
				datas = multi.Result.Proof.OracleDataMultiProof
				rb, dbs, err := ref.BridgeSplitMultiProof(evm)
				if err != nil {
					v.Failf("C12/abi-decode", "query %d: proof bytes do not decode as (bytes,bytes[]): %v", qi, err)
					return v
				}
				relayBlob, dataBlobs = rb, dbs
			}
			if len(datas) != len(ids) || len(dataBlobs) != len(ids) {
				v.Failf("C12/abi-mismatch", "query %d: %d ids, %d data proofs, %d encoded data proofs", qi, len(ids), len(datas), len(dataBlobs))
				return v
			}
			for i, d := range datas {
				a := ref.BridgeOracleData{BlockHeight: blockHeight, Result: convResult(d.Result), Version: d.Version, Paths: convPaths(d.MerklePaths)}
				if a.Result.RequestID != ids[i] {
					v.Failf("C12/wrong-result", "query %d: asked for request %d, proof carries the result of request %d", qi, ids[i], a.Result.RequestID)
					return v
				}
				root, err := ref.BridgeOracleRoot(a)
				if err != nil || !bytes.Equal(root, relay.MultiStoreProof.OracleIAVLStateHash) {
					v.Failf("C12/iavl-root", "query %d: result %d at state height %d: leaf+path (%d steps, version %d) hash to %x (%v), returned oracle store root is %x",
						qi, ids[i], state, len(a.Paths), a.Version, root, err, []byte(relay.MultiStoreProof.OracleIAVLStateHash))
					return v
				}
				b, err := ref.BridgeDecodeOracleData(dataBlobs[i])
				if err != nil {
					v.Failf("C12/abi-decode", "query %d: result proof bytes do not decode: %v", qi, err)
					return v
				}
				if a.BlockHeight != b.BlockHeight || a.Version != b.Version || !eqResult(a.Result, b.Result) || !eqPaths(a.Paths, b.Paths) {
					v.Failf("C12/abi-mismatch", "query %d: ABI-decoded result proof %+v differs from the returned proof %+v", qi, b, a)
					return v
				}
				if len(a.Paths) > maxPath {
					maxPath = len(a.Paths)
				}
				if int64(a.Version) < state {
					oldLeaf = true
				}
				l, r := false, false
				for _, p := range a.Paths {
					if p.IsDataOnRight {
						r = true
					} else {
						l = true
					}
				}
				if l && r {
					classes["path-both-sides"] = true
				}
				v.Count("path_steps", int64(len(a.Paths)))
			}
		default:
			relay, blockHeight = count.Result.Proof.BlockRelayProof, count.Result.Proof.BlockHeight
			rb, db, err := ref.BridgeSplitProof(count.Result.EvmProofBytes)
			if err != nil {
				v.Failf("C12/abi-decode", "query %d: count proof bytes do not decode as (bytes,bytes): %v", qi, err)
				return v
			}
			relayBlob = rb
			cp := count.Result.Proof.CountProof
			a := ref.BridgeCountData{BlockHeight: blockHeight, Count: cp.Count, Version: cp.Version, Paths: convPaths(cp.MerklePaths)}
			root, err := ref.BridgeCountRoot(a)
			if err != nil || !bytes.Equal(root, relay.MultiStoreProof.OracleIAVLStateHash) {
				v.Failf("C12/iavl-root", "query %d: request count %d at state height %d: leaf+path hash to %x (%v), returned oracle store root is %x",
					qi, a.Count, state, root, err, []byte(relay.MultiStoreProof.OracleIAVLStateHash))
				return v
			}
			b, err := ref.BridgeDecodeCountData(db)
			if err != nil {
				v.Failf("C12/abi-decode", "query %d: count proof bytes do not decode: %v", qi, err)
				return v
			}
			if a.BlockHeight != b.BlockHeight || a.Version != b.Version || a.Count != b.Count || !eqPaths(a.Paths, b.Paths) {
				v.Failf("C12/abi-mismatch", "query %d: ABI-decoded count proof %+v differs from the returned proof %+v", qi, b, a)
				return v
			}
		}
		if blockHeight != uint64(hdrHeight) || relay.BlockHeaderMerkleParts.Height != uint64(hdrHeight) {
			v.Failf("C12/block-height", "query %d: proof is labelled with block height %d / header part height %d, the header is at %d",
				qi, blockHeight, relay.BlockHeaderMerkleParts.Height, hdrHeight)
			return v
		}
		st := &relayStats{}
		checkRelay(v, relay, relayBlob, blk, st)
		if v.Violation != "" {
			v.Violation = fmt.Sprintf("query %d (%s, state height %d of %d, ids %v, chain id %q, round %d): %s", qi, q.Kind, state, last, ids, q.Hdr.ChainID, q.Hdr.Round, v.Violation)
			return v
		}
		v.Count("proofs_verified", 1)
		v.Count("signatures", int64(st.sigs))
		v.Count("converse_missing_signers", int64(st.missing))
		old := state <= last-2
		if maxPath >= 3 {
			classes["path>=3"] = true
		}
		if old {
			classes["old-height"] = true
		}
		if oldLeaf {
			classes["leaf-older-than-height"] = true
		}
		if st.sigs >= 2 {
			classes["sigs>=2"] = true
		}
		if q.Kind != "count" && maxPath >= 3 && old && st.sigs >= 2 {
			nontrivial = true
		}
	}
	if len(h.resolvedAt) == 0 {
		classes["no-results"] = true
	}
	if nontrivial {
		classes["nontrivial"] = true
	}
	names := make([]string, 0, len(classes))
	for k := range classes {
		names = append(names, k)
	}
	sort.Strings(names)
	for _, k := range names {
		v.Class(k)
	}
	v.NonTrivial = nontrivial
	v.Sample = map[string]any{"blocks": last, "results": len(h.resolvedAt), "queries": len(c.Queries), "first_query": c.Queries[0]}
	return v
}

func TestC12(t *testing.T) { pbt.Check(t, "C12", genC12, runC12) }

// ---- pure stage: header parts and signatures for arbitrary heights -------------------------------------------------

type c12PureCase struct {
	Height  int64  `json:"height"`
	AppSeed int    `json:"app"`
	Hdr     c12Hdr `json:"hdr"`
}

func genC12Pure(rt *rapid.T) c12PureCase {
	c := c12PureCase{AppSeed: rapid.IntRange(0, 1<<30).Draw(rt, "app")}
	if gen.Chance(rt, "height-edge", 1, 2) {
		c.Height = gen.OneOf[int64](rt, "height-e", 1, 2, 127, 128, 16383, 16384, 25000, 1<<31-1, 1<<31, 1<<32, 1<<56-1, 1<<56, 1<<62, 1<<63-1)
	} else {
		c.Height = rapid.Int64Range(1, 1<<63-1).Draw(rt, "height")
	}
	c.Hdr = genHdr(rt)
	return c
}

func runC12Pure(c c12PureCase) *pbt.Verdict {
	v := &pbt.Verdict{}
	if c.Height < 1 {
		v.Failf("harness", "bad height")
		return v
	}
	appHash := seedHash(c.AppSeed, "app-hash")
	blk, err := buildBlock(c.Hdr, c.Height, appHash)
	if err != nil {
		v.Failf("harness", "building the block failed: %v", err)
		return v
	}
	var parts proof.BlockHeaderMerkleParts
	var sigs []proof.TMSignature
	var common proof.CommonEncodedVotePart
	callErr, panicked := safely(func() (e error) {
		parts = proof.GetBlockHeaderMerkleParts(blk.signed.Header)
		sigs, common, e = proof.GetSignaturesAndPrefix(blk.signed)
		return e
	})
	if c.Hdr.Overlong {
		v.Class("overlong-chain-id")
		if callErr != nil || panicked != nil {
			v.Count("out_of_domain_error", 1)
		} else {
			v.Count("out_of_domain_proof_returned", 1)
		}
		return v
	}
	if panicked != nil {
		v.Failf("C12/proof-panic", "header/signature extraction panicked: %v", panicked)
		return v
	}
	if callErr != nil {
		v.Failf("C12/proof-error", "header/signature extraction failed: %v", callErr)
		return v
	}
	r := convRelay(proof.BlockRelayProof{BlockHeaderMerkleParts: parts, CommonEncodedVotePart: common, Signatures: sigs})
	out, stage, err := ref.BridgeRelayHeader(r.Parts, r.Common, r.Signatures, appHash, c.Hdr.ChainID)
	st := &relayStats{}
	checkHeaderOutcome(v, out, stage, err, blk, st)
	if v.Violation != "" {
		return v
	}
	v.Count("signatures", int64(st.sigs))
	v.Count("converse_missing_signers", int64(st.missing))
	if c.Hdr.Round != 0 {
		v.Class("round>0")
	}
	if c.Height >= 128 {
		v.Class("height>=128")
	}
	if st.sigs >= 2 {
		v.Class("sigs>=2")
	}
	for _, bv := range blk.vals {
		if bv.flag == cmttypes.BlockIDFlagCommit && len(bv.signBytes) == 128 {
			v.Class("vote-length-127")
			break
		}
	}
	v.NonTrivial = st.sigs >= 2 && c.Height >= 128
	return v
}

func TestC12Pure(t *testing.T) { pbt.Check(t, "C12", genC12Pure, runC12Pure) }
