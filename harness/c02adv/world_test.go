package c02adv

// The world of the adversarial C02 stage: genesis + set-up blocks that make every custom module busy, and one
// VALID template per message type, late-bound on the committed state (ids, members, pending requests ...).

import (
	"bytes"
	"fmt"
	"sort"
	"strings"
	"time"

	"cosmossdk.io/math"

	codectypes "github.com/cosmos/cosmos-sdk/codec/types"
	sdk "github.com/cosmos/cosmos-sdk/types"
	"github.com/cosmos/cosmos-sdk/x/authz"
	banktypes "github.com/cosmos/cosmos-sdk/x/bank/types"
	govv1 "github.com/cosmos/cosmos-sdk/x/gov/types/v1"
	stakingtypes "github.com/cosmos/cosmos-sdk/x/staking/types"
	channeltypes "github.com/cosmos/ibc-go/v8/modules/core/04-channel/types"
	ibcexported "github.com/cosmos/ibc-go/v8/modules/core/exported"
	ibctypes "github.com/cosmos/ibc-go/v8/modules/core/types"

	band "github.com/bandprotocol/chain/v3/app"
	"github.com/cosmos/gogoproto/proto"

	"github.com/bandprotocol/chain/v3/pkg/tss"
	bandtsstypes "github.com/bandprotocol/chain/v3/x/bandtss/types"
	feedstypes "github.com/bandprotocol/chain/v3/x/feeds/types"
	globalfeetypes "github.com/bandprotocol/chain/v3/x/globalfee/types"
	oracletypes "github.com/bandprotocol/chain/v3/x/oracle/types"
	restaketypes "github.com/bandprotocol/chain/v3/x/restake/types"
	tsstypes "github.com/bandprotocol/chain/v3/x/tss/types"
	tunneltypes "github.com/bandprotocol/chain/v3/x/tunnel/types"

	"verif/harness/pbt"
	"verif/harness/sim"
	"verif/harness/tssworld"
)

type msgType struct {
	url    string
	module string
	gov    bool // authority-only: routed through a real governance proposal
}

// every sdk.Msg of the custom modules (cross-checked against the interface registry by TestC02AdvMsgList)
var msgTypes = []msgType{
	{"/band.oracle.v1.MsgRequestData", "oracle", false},
	{"/band.oracle.v1.MsgReportData", "oracle", false},
	{"/band.oracle.v1.MsgCreateDataSource", "oracle", false},
	{"/band.oracle.v1.MsgEditDataSource", "oracle", false},
	{"/band.oracle.v1.MsgCreateOracleScript", "oracle", false},
	{"/band.oracle.v1.MsgEditOracleScript", "oracle", false},
	{"/band.oracle.v1.MsgActivate", "oracle", false},
	{"/band.oracle.v1.MsgUpdateParams", "oracle", true},
	{"/band.tss.v1beta1.MsgSubmitDKGRound1", "tss", false},
	{"/band.tss.v1beta1.MsgSubmitDKGRound2", "tss", false},
	{"/band.tss.v1beta1.MsgComplain", "tss", false},
	{"/band.tss.v1beta1.MsgConfirm", "tss", false},
	{"/band.tss.v1beta1.MsgSubmitDEs", "tss", false},
	{"/band.tss.v1beta1.MsgResetDE", "tss", false},
	{"/band.tss.v1beta1.MsgSubmitSignature", "tss", false},
	{"/band.tss.v1beta1.MsgUpdateParams", "tss", true},
	{"/band.bandtss.v1beta1.MsgRequestSignature", "bandtss", false},
	{"/band.bandtss.v1beta1.MsgActivate", "bandtss", false},
	{"/band.bandtss.v1beta1.MsgUpdateParams", "bandtss", true},
	{"/band.bandtss.v1beta1.MsgTransitionGroup", "bandtss", true},
	{"/band.bandtss.v1beta1.MsgForceTransitionGroup", "bandtss", true},
	{"/band.feeds.v1beta1.MsgVote", "feeds", false},
	{"/band.feeds.v1beta1.MsgSubmitSignalPrices", "feeds", false},
	{"/band.feeds.v1beta1.MsgUpdateReferenceSourceConfig", "feeds", false},
	{"/band.feeds.v1beta1.MsgUpdateParams", "feeds", true},
	{"/band.tunnel.v1beta1.MsgCreateTunnel", "tunnel", false},
	{"/band.tunnel.v1beta1.MsgUpdateRoute", "tunnel", false},
	{"/band.tunnel.v1beta1.MsgUpdateSignalsAndInterval", "tunnel", false},
	{"/band.tunnel.v1beta1.MsgActivate", "tunnel", false},
	{"/band.tunnel.v1beta1.MsgDeactivate", "tunnel", false},
	{"/band.tunnel.v1beta1.MsgTriggerTunnel", "tunnel", false},
	{"/band.tunnel.v1beta1.MsgDepositToTunnel", "tunnel", false},
	{"/band.tunnel.v1beta1.MsgWithdrawFromTunnel", "tunnel", false},
	{"/band.tunnel.v1beta1.MsgUpdateParams", "tunnel", true},
	{"/band.restake.v1beta1.MsgStake", "restake", false},
	{"/band.restake.v1beta1.MsgUnstake", "restake", false},
	{"/band.restake.v1beta1.MsgUpdateParams", "restake", true},
	{"/band.globalfee.v1beta1.MsgUpdateParams", "globalfee", true},
}

func shortName(url string) string {
	p := strings.Split(strings.TrimPrefix(url, "/band."), ".")
	return p[0] + "." + p[len(p)-1]
}

var signalIDs = []string{"S1", "S2", "S3", "S4", "S5", "S6"}

const (
	nUsers   = 12
	uAdmin   = 0 // feeds admin, owner of genesis data sources / scripts, member of group 1
	uCreator = 3 // tunnel creator A
	uReq     = 4 // requester, funder, tunnel creator B
	uVoter   = 5 // genesis voter
	uDelA    = 6 // delegator / staker / voter / member of group 2 / DKG candidate
	uDelB    = 7
	uOut     = 8  // outsider with funds
	uSpare   = 9  // never acts on its own (wrong signer, grantee nobody granted anything)
	uAgent   = 10 // authz grantee of everybody (what yoda / grogu / cylinder keys are on real networks)
	uAgent2  = 11 // holds one grant: the agent's MsgExec (nested execution)
)

func init() {
	anyAlternatives = []func() proto.Message{
		func() proto.Message {
			r := tunneltypes.NewTSSRoute("eth", "0xabc", feedstypes.ENCODER_TICK_ABI)
			return &r
		},
		func() proto.Message { return tunneltypes.NewIBCRoute("") },
		func() proto.Message { return tunneltypes.NewIBCRoute("channel-0") },
		func() proto.Message { return tsstypes.NewTextSignatureOrder([]byte("alt")) },
		func() proto.Message {
			return oracletypes.NewOracleResultSignatureOrder(1, oracletypes.ENCODER_FULL_ABI)
		},
		func() proto.Message {
			return feedstypes.NewFeedSignatureOrder([]string{"S1", "S2"}, feedstypes.ENCODER_FIXED_POINT_ABI)
		},
		func() proto.Message {
			return tunneltypes.NewTunnelSignatureOrder(1, []feedstypes.Price{{Status: feedstypes.PRICE_STATUS_AVAILABLE, SignalID: "S1", Price: 5, Timestamp: 1}}, 1, feedstypes.ENCODER_FIXED_POINT_ABI)
		},
		func() proto.Message {
			return bandtsstypes.NewGroupTransitionSignatureOrder(tssworld.ScalarFrom("alt").Point(), time.Unix(1_700_000_100, 0).UTC())
		},
		func() proto.Message { return &oracletypes.MsgActivate{Validator: "bandvaloper1xyz"} },
		func() proto.Message { return &tsstypes.TextSignatureOrder{} },
	}
}

var rawScripts = [][]byte{
	sim.ScriptAsk([]int{1, 2}, "ok"),
	sim.ScriptEcho(1),
	sim.ScriptProbe(1, 0, false),
	sim.ScriptProbe(1, 0, true),
	sim.ScriptReturnEmpty([]int{1}),
	sim.ScriptAsk([]int{1}, ""),
}

type world struct {
	c      advCase
	v      *pbt.Verdict
	ch     *sim.Chain
	u      []*sim.Account
	ghost  *sim.Account
	wallet *tssworld.Wallet
	privs  map[uint64]map[string]tss.Scalar // group id -> member address -> key share
	dkgs   map[uint64]map[string]*dkgMember
	env    *mutEnv
	ctr    int
	// per block
	ctx          sdk.Context
	nextT        time.Time
	seen         map[string]bool
	propsInBlock uint64
	samplingTry  uint64 // oracle SamplingTryCount in the committed state
	hung         bool
	// bookkeeping
	props map[uint64][]*comp // proposal id -> its messages
}

func uband(n int64) sdk.Coins { return sdk.NewCoins(sdk.NewInt64Coin("uband", n)) }

func pickOf[T any](xs []T, i int) T {
	j := i % len(xs)
	if j < 0 {
		j += len(xs)
	}
	return xs[j]
}

func (w *world) buildConfig() sim.Config {
	c := w.c
	vals := make([]sim.ValSpec, c.NVals)
	for i := range vals {
		vals[i] = sim.ValSpec{Tokens: int64(10+7*i) * 1_000_000}
	}
	op := oracletypes.DefaultParams()
	op.ExpirationBlockCount = pickOf([]uint64{2, 5, 20}, c.Cfg[0])
	op.InactivePenaltyDuration = pickOf([]uint64{uint64(time.Second), uint64(10 * time.Second)}, c.Cfg[1])
	op.MaxReportDataSize = pickOf([]uint64{16, 512}, c.Cfg[2])
	tp := tsstypes.DefaultParams()
	tp.SigningPeriod = pickOf([]uint64{2, 5, 100}, c.Cfg[3])
	tp.MaxSigningAttempt = pickOf([]uint64{1, 2, 5}, c.Cfg[4])
	tp.MaxDESize = pickOf([]uint64{10, 20}, c.Cfg[5])
	tp.CreationPeriod = pickOf([]uint64{4, 12, 1000}, c.Cfg[6])
	bp := bandtsstypes.DefaultParams()
	bp.FeePerSigner = pickOf([]sdk.Coins{sdk.NewCoins(), uband(5), uband(5)}, c.Cfg[7])
	bp.RewardPercentage = pickOf([]uint64{0, 10, 50, 100}, c.Cfg[8])
	bp.InactivePenaltyDuration = pickOf([]time.Duration{time.Second, 10 * time.Second}, c.Cfg[9])
	bp.MinTransitionDuration = time.Second
	bp.MaxTransitionDuration = 7 * 24 * time.Hour
	fp := feedstypes.DefaultParams()
	fp.CooldownTime = pickOf([]int64{1, 30}, c.Cfg[10])
	fp.MinInterval, fp.MaxInterval = 1, 3600
	fp.GracePeriod = pickOf([]int64{1, 30, 1_000_000}, c.Cfg[11])
	fp.CurrentFeedsUpdateInterval = pickOf([]int64{1, 5, 1_000_000}, c.Cfg[12])
	fp.PowerStepThreshold = 1000
	fp.PriceQuorum = pickOf([]string{"0.3", "1", "0", "0.3"}, c.Cfg[13])
	fp.MaxCurrentFeeds = pickOf([]uint64{2, 5, 300}, c.Cfg[14])
	fp.Admin = sim.NewAccount(fmt.Sprintf("user%d", uAdmin)).Addr.String()
	tnp := tunneltypes.DefaultParams()
	tnp.MinDeposit = uband(10)
	tnp.MinInterval, tnp.MaxInterval, tnp.MinDeviationBPS, tnp.MaxDeviationBPS = 1, 3600, 1, 10000
	tnp.MaxSignals = pickOf([]uint64{3, 5}, c.Cfg[15])
	tnp.BasePacketFee = pickOf([]sdk.Coins{sdk.NewCoins(), uband(3)}, c.Cfg[16])
	rp := restaketypes.DefaultParams()
	rp.AllowedDenoms = []string{"uband"}
	cfg := sim.Config{NumAccounts: nUsers, Validators: vals, GovVoting: 3 * time.Second,
		Oracle: &op, TSS: &tp, Bandtss: &bp, Feeds: &fp, Tunnel: &tnp, Restake: &rp,
		Balance: sdk.NewCoins(sdk.NewInt64Coin("uband", 1_000_000_000_000), sdk.NewInt64Coin("uatom", 1_000_000_000)),
		DataSources: []sim.DSSpec{
			{Exec: []byte("#!/bin/sh\necho ds-one-executable-0123456789abcdef"), Fee: uband(10), Treasury: 1},
			{Exec: []byte("#!/bin/sh\necho ds-two-executable-0123456789abcdef"), Fee: sdk.NewCoins(), Treasury: 2},
		},
		Scripts: rawScripts[:5],
	}
	addr := func(i int) string { return sim.NewAccount(fmt.Sprintf("user%d", i)).Addr.String() }
	g1 := tssworld.NewGroup(1, 2, []string{addr(0), addr(1), addr(2)}, "c02adv-g1")
	groups := []*tssworld.Group{g1}
	if c.SecondGroup {
		groups = append(groups, tssworld.NewGroup(2, 2, []string{addr(uDelA), addr(uDelB)}, "c02adv-g2"))
	}
	w.wallet = tssworld.NewWallet()
	initDE := 7
	tssworld.GenesisFor(&cfg, groups, 0, w.wallet, initDE)
	for _, g := range groups {
		w.privs[uint64(g.ID)] = map[string]tss.Scalar{}
		for _, m := range g.Members {
			w.privs[uint64(g.ID)][m.Addr] = m.Priv
		}
	}
	var sigs []feedstypes.Signal
	for i := 0; i < 4; i++ {
		sigs = append(sigs, feedstypes.Signal{ID: signalIDs[i], Power: int64(60_000 - 1000*i)})
	}
	cfg.FeedsVotes = []feedstypes.Vote{{Voter: addr(uVoter), Signals: sigs}}
	// an OPEN channel on the port of the IBC tunnel created in set-up (tunnel 2), so that MsgUpdateRoute can succeed
	cfg.ExtraGenesis = func(gs band.GenesisState, app *band.BandApp) {
		var ig ibctypes.GenesisState
		app.AppCodec().MustUnmarshalJSON(gs[ibcexported.ModuleName], &ig)
		ig.ChannelGenesis.Channels = append(ig.ChannelGenesis.Channels, channeltypes.IdentifiedChannel{
			State: channeltypes.OPEN, Ordering: channeltypes.UNORDERED, Counterparty: channeltypes.NewCounterparty("consumer", "channel-7"),
			ConnectionHops: []string{"connection-0"}, Version: "tunnel-1", PortId: "tunnel.2", ChannelId: "channel-0"})
		ig.ChannelGenesis.SendSequences = append(ig.ChannelGenesis.SendSequences, channeltypes.NewPacketSequence("tunnel.2", "channel-0", 1))
		ig.ChannelGenesis.NextChannelSequence = 1
		gs[ibcexported.ModuleName] = app.AppCodec().MustMarshalJSON(&ig)
	}
	return cfg
}

type built struct {
	signer   *sim.Account
	msg      sdk.Msg
	fallback bool // no object in the state the message could apply to: well-formed, but expected to be refused
}

func (w *world) acct(addr string) *sim.Account { return w.ch.Account(addr) }

func (w *world) valAcct(valoper string) *sim.Account {
	for _, v := range w.ch.Vals {
		if v.Val.String() == valoper {
			return v
		}
	}
	return nil
}

func (w *world) next() int { w.ctr++; return w.ctr }

// setup executes the first blocks: everything through transactions.
func (w *world) setup() bool {
	ch, u := w.ch, w.u
	fail := func(what string, res *sim.BlockResult, err error) bool {
		if err != nil {
			w.v.Failf("C02/finalize-error", "set-up block (%s) failed: %v", what, err)
			return true
		}
		for i, tr := range res.Resp.TxResults {
			if tr.Code != 0 {
				w.v.Failf("harness", "set-up block (%s): tx %d rejected: %s", what, i, tr.Log)
				return true
			}
		}
		return false
	}
	var txs [][]byte
	add := func(a *sim.Account, msgs ...sdk.Msg) { txs = append(txs, ch.SignTx(a, msgs...)) }
	for i, v := range ch.Vals {
		if w.c.LastInactive && i == len(ch.Vals)-1 {
			continue
		}
		add(v, oracletypes.NewMsgActivate(v.Val))
	}
	add(u[uDelA], stakingtypes.NewMsgDelegate(u[uDelA].Addr.String(), ch.Vals[0].Val.String(), sdk.NewInt64Coin("uband", 5_000_000)))
	add(u[uDelB], stakingtypes.NewMsgDelegate(u[uDelB].Addr.String(), ch.Vals[1].Val.String(), sdk.NewInt64Coin("uband", 3_000_000)))
	add(u[uDelA], stakingtypes.NewMsgDelegate(u[uDelA].Addr.String(), ch.Vals[1].Val.String(), sdk.NewInt64Coin("uband", 1_000_000)))
	add(u[uDelA], restaketypes.NewMsgStake(u[uDelA].Addr, uband(2_000_000)))
	add(u[uDelB], restaketypes.NewMsgStake(u[uDelB].Addr, uband(500_000)))
	sd := func(ids ...string) []tunneltypes.SignalDeviation {
		var out []tunneltypes.SignalDeviation
		for i, id := range ids {
			out = append(out, tunneltypes.NewSignalDeviation(id, uint64(100+50*i), uint64(200+100*i)))
		}
		return out
	}
	t1, _ := tunneltypes.NewMsgCreateTSSTunnel(sd("S1", "S2"), 5, "eth", "0xabc", feedstypes.ENCODER_FIXED_POINT_ABI, uband(10), u[uCreator].Addr.String())
	t2, _ := tunneltypes.NewMsgCreateIBCTunnel(sd("S1"), 7, uband(10), u[uCreator].Addr.String())
	t3, _ := tunneltypes.NewMsgCreateTSSTunnel(sd("S3", "S4", "S1"), 3, "bsc", "0xdef", feedstypes.ENCODER_TICK_ABI, uband(25), u[uReq].Addr.String())
	add(u[uCreator], t1)
	add(u[uCreator], t2)
	add(u[uReq], t3)
	for _, a := range []*sim.Account{u[uDelA], u[uDelB]} {
		add(a, tsstypes.NewMsgSubmitDEs(w.wallet.Fresh(a.Addr.String(), 3), a.Addr.String()))
	}
	if w.c.SetupTransition {
		members := []string{u[uDelA].Addr.String(), u[uDelB].Addr.String()}
		if w.c.Cfg[17]%2 == 1 {
			members = append(members, u[1].Addr.String())
		}
		m := bandtsstypes.NewMsgTransitionGroup(members, 2, ch.Time.Add(time.Duration(10+w.c.Cfg[17]%50)*time.Second), sim.GovAuthority())
		prop, err := govv1.NewMsgSubmitProposal([]sdk.Msg{m}, uband(10), ch.Vals[0].Addr.String(), "", "t", "s", false)
		if err != nil {
			w.v.Failf("harness", "proposal: %v", err)
			return false
		}
		add(ch.Vals[0], prop)
		for _, v := range ch.Vals {
			add(v, govv1.NewMsgVote(v.Addr, 1, govv1.OptionYes, ""))
		}
		ti := typeIndex("/band.bandtss.v1beta1.MsgTransitionGroup")
		w.props[1] = []*comp{{ti: ti, url: msgTypes[ti].url, msg: m}}
	}
	if w.c.Grants {
		// every account that acts in the history lets the agent act for it, for every message type of the custom modules
		// that is not authority-only (generic authorizations without expiry: what validators give their yoda / grogu keys
		// and members their cylinder keys); the agent lets agent2 execute its MsgExec (nested execution)
		granters := append(append([]*sim.Account{}, u[:uSpare]...), ch.Vals...)
		for _, g := range granters {
			var msgs []sdk.Msg
			for _, mt := range msgTypes {
				if mt.gov {
					continue
				}
				m, gerr := authz.NewMsgGrant(g.Addr, u[uAgent].Addr, authz.NewGenericAuthorization(mt.url), nil)
				if gerr != nil {
					w.v.Failf("harness", "grant: %v", gerr)
					return false
				}
				msgs = append(msgs, m)
			}
			add(g, msgs...)
		}
		m, gerr := authz.NewMsgGrant(u[uAgent].Addr, u[uAgent2].Addr, authz.NewGenericAuthorization(sdk.MsgTypeURL(&authz.MsgExec{})), nil)
		if gerr != nil {
			w.v.Failf("harness", "grant: %v", gerr)
			return false
		}
		add(u[uAgent], m)
	}
	res, err := ch.Block(txs, time.Second)
	if fail("A", res, err) {
		return false
	}
	txs = nil
	ctx := ch.Ctx()
	for id := uint64(1); id <= 3; id++ {
		tn, terr := ch.App.TunnelKeeper.GetTunnel(ctx, id)
		if terr != nil {
			w.v.Failf("harness", "tunnel %d missing after set-up", id)
			return false
		}
		add(u[uReq], banktypes.NewMsgSend(u[uReq].Addr, sdk.MustAccAddressFromBech32(tn.FeePayer), uband(1_000_000)))
		add(w.acct(tn.Creator), tunneltypes.NewMsgActivate(id, tn.Creator))
	}
	add(u[uDelA], feedstypes.NewMsgVote(u[uDelA].Addr.String(), []feedstypes.Signal{{ID: "S1", Power: 3_000_000}, {ID: "S5", Power: 2_000_000}}))
	ts := ch.Time.Add(3 * time.Second).Unix()
	cur := ch.App.FeedsKeeper.GetCurrentFeeds(ctx)
	for i, v := range ch.Vals {
		if w.c.LastInactive && i == len(ch.Vals)-1 {
			continue
		}
		var sp []feedstypes.SignalPrice
		for j, f := range cur.Feeds {
			sp = append(sp, feedstypes.SignalPrice{Status: feedstypes.SIGNAL_PRICE_STATUS_AVAILABLE, SignalID: f.SignalID, Price: uint64(1000*(j+1) + 10*i)})
		}
		if len(sp) > 0 {
			add(v, feedstypes.NewMsgSubmitSignalPrices(v.Val.String(), ts, sp))
		}
	}
	add(u[uReq], oracletypes.NewMsgRequestData(1, []byte("cd"), 1, 1, "setup", uband(1_000_000), 100_000, 1_000_000, u[uReq].Addr, oracletypes.ENCODER_FULL_ABI))
	add(u[uReq], tssworld.TextRequest(u[uReq].Addr, []byte("setup text"), uband(1000)))
	res, err = ch.Block(txs, 3*time.Second)
	return !fail("B", res, err)
}

func typeIndex(url string) int {
	for i, t := range msgTypes {
		if t.url == url {
			return i
		}
	}
	return -1
}

func (w *world) beginBlock(dt time.Duration) {
	w.ctx = w.ch.Ctx()
	w.nextT = w.ch.Time.Add(dt)
	w.seen = map[string]bool{}
	w.propsInBlock = 0
	w.env = w.makeEnv()
	w.samplingTry = w.ch.App.OracleKeeper.GetParams(w.ctx).SamplingTryCount
}

func (w *world) makeEnv() *mutEnv {
	e := &mutEnv{now: w.nextT, wasm: rawScripts[5], offCurve: offCurvePoint, gPoint: tssworld.ScalarFrom("c02adv-foreign").Point()}
	u := w.u
	long := sdk.AccAddress(bytes.Repeat([]byte{7}, 32)).String()
	e.addrs = []string{u[uOut].Addr.String(), u[uCreator].Addr.String(), u[uReq].Addr.String(), u[1].Addr.String(), w.ch.Vals[0].Addr.String(), w.ch.Vals[0].Val.String(),
		sim.GovAuthority(), w.ch.App.AccountKeeper.GetModuleAddress(tunneltypes.ModuleName).String(), w.ch.App.AccountKeeper.GetModuleAddress(bandtsstypes.ModuleName).String(),
		"", "band1xyz", w.ghost.Addr.String(), "cosmos1qypqxpq9qcrsszg2pvxq6rs0zqg3yyc5lzv7xu", strings.ToUpper(u[uOut].Addr.String()), long,
		u[uDelA].Addr.String(), u[uAdmin].Addr.String(), u[uVoter].Addr.String()}
	if tn, err := w.ch.App.TunnelKeeper.GetTunnel(w.ctx, 1); err == nil {
		e.addrs = append(e.addrs, tn.FeePayer)
	}
	e.valaddrs = []string{w.ch.Vals[len(w.ch.Vals)-1].Val.String(), w.ch.Vals[0].Val.String(), sdk.ValAddress(u[uOut].Addr).String(), u[uOut].Addr.String(), "", "bandvaloper1xyz",
		sdk.ValAddress(w.ghost.Addr).String(), sdk.ValAddress(bytes.Repeat([]byte{7}, 32)).String()}
	e.strs = []string{"S1", "S2", "S5", "SX", "s1", "eth", "1.0.0", "01.0.0", "1.0", "v1.0.0", "uband", "feeds", "\x00S1"}
	return e
}

var offCurvePoint = func() []byte {
	for x := byte(1); x < 255; x++ {
		p := append([]byte{2}, append(bytes.Repeat([]byte{0}, 31), x)...)
		if tss.Point(p).Validate() != nil {
			return p
		}
	}
	return append([]byte{2}, bytes.Repeat([]byte{0}, 32)...)
}()

// ---- templates ---------------------------------------------------------------------------------------------

func (w *world) activeVals() []*sim.Account {
	var out []*sim.Account
	for _, v := range w.ch.Vals {
		if w.ch.App.OracleKeeper.GetValidatorStatus(w.ctx, v.Val).IsActive {
			out = append(out, v)
		}
	}
	return out
}

func (w *world) signals(k int, start int) []string {
	var out []string
	for i := 0; i < k; i++ {
		out = append(out, signalIDs[(start+i)%len(signalIDs)])
	}
	return out
}

func clampU(x, lo, hi uint64) uint64 {
	if x < lo {
		return lo
	}
	if x > hi {
		return hi
	}
	return x
}

func (w *world) deviations(k, start int) []tunneltypes.SignalDeviation {
	p := w.ch.App.TunnelKeeper.GetParams(w.ctx)
	if uint64(k) > p.MaxSignals && p.MaxSignals > 0 {
		k = int(p.MaxSignals)
	}
	var out []tunneltypes.SignalDeviation
	for i, id := range w.signals(k, start) {
		soft := clampU(uint64(50+60*i), p.MinDeviationBPS, p.MaxDeviationBPS)
		hard := clampU(soft*2, p.MinDeviationBPS, p.MaxDeviationBPS)
		out = append(out, tunneltypes.NewSignalDeviation(id, soft, hard))
	}
	return out
}

func (w *world) tunnelIDs(filter func(tunneltypes.Tunnel) bool) []tunneltypes.Tunnel {
	var out []tunneltypes.Tunnel
	for _, t := range w.ch.App.TunnelKeeper.GetTunnels(w.ctx) {
		if filter == nil || filter(t) {
			out = append(out, t)
		}
	}
	return out
}

// pickTunnel returns a tunnel satisfying prefer when there is one (hit), else any tunnel.
func (w *world) pickTunnel(prefer func(tunneltypes.Tunnel) bool, s int) (tn tunneltypes.Tunnel, creator *sim.Account, hit bool) {
	ts := w.tunnelIDs(prefer)
	hit = len(ts) > 0
	if len(ts) == 0 {
		ts = w.tunnelIDs(nil)
	}
	if len(ts) == 0 {
		return tunneltypes.Tunnel{ID: 1, Creator: w.u[uCreator].Addr.String()}, w.u[uCreator], false
	}
	t := pickOf(ts, s)
	a := w.acct(t.Creator)
	if a == nil {
		a = w.u[uCreator]
	}
	return t, a, hit
}

func (w *world) groupsIn(status tsstypes.GroupStatus) []tsstypes.Group {
	var out []tsstypes.Group
	for _, g := range w.ch.App.TSSKeeper.GetGroups(w.ctx) {
		if g.Status == status {
			out = append(out, g)
		}
	}
	return out
}

func (w *world) dkgMember(gid uint64, addr string) *dkgMember {
	if w.dkgs[gid] == nil {
		return nil
	}
	return w.dkgs[gid][addr]
}

var (
	wellFormedSig = func() tss.Signature {
		return append(append([]byte(nil), tssworld.ScalarFrom("sigR").Point()...), tssworld.ScalarFrom("sigS")...)
	}()
	wellFormedComplaintSig = func() tss.ComplaintSignature {
		return append(append(append([]byte(nil), tssworld.ScalarFrom("cA1").Point()...), tssworld.ScalarFrom("cA2").Point()...), tssworld.ScalarFrom("cZ")...)
	}()
)

// dkgTemplate builds the DKG message(s) of the given round (1, 2, 3 = confirm, 4 = complain).
func (w *world) dkgTemplate(round int, t advTx) []built {
	tk := w.ch.App.TSSKeeper
	statusOf := map[int]tsstypes.GroupStatus{1: tsstypes.GROUP_STATUS_ROUND_1, 2: tsstypes.GROUP_STATUS_ROUND_2, 3: tsstypes.GROUP_STATUS_ROUND_3, 4: tsstypes.GROUP_STATUS_ROUND_3}
	if t.B && round != 4 && len(w.groupsIn(statusOf[round])) == 0 {
		// burst mode is helpful: when no group is in the round of this message type, the members of a group in creation
		// send what its current round asks for (this is what lets key generations complete within a history)
		for _, r := range []int{1, 2, 3} {
			if len(w.groupsIn(statusOf[r])) > 0 {
				round = r
				break
			}
		}
	}
	status := statusOf[round]
	var out []built
	if gs := w.groupsIn(status); len(gs) > 0 {
		g := pickOf(gs, t.sel(0))
		gid := g.ID
		gr, err := queryGroup(w.ch, gid)
		members, merr := tk.GetGroupMembers(w.ctx, gid)
		if err == nil && merr == nil {
			var elig []tsstypes.Member
			for _, m := range members {
				if w.acct(m.Address) == nil || w.seen[fmt.Sprintf("dkg/%d/%d/%d", gid, round, m.ID)] {
					continue
				}
				switch round {
				case 1:
					if tk.HasRound1Info(w.ctx, gid, m.ID) {
						continue
					}
				case 2:
					if tk.HasRound2Info(w.ctx, gid, m.ID) || w.dkgMember(uint64(gid), m.Address) == nil {
						continue
					}
				default:
					if tk.HasConfirm(w.ctx, gid, m.ID) || tk.HasComplaintsWithStatus(w.ctx, gid, m.ID) || w.dkgMember(uint64(gid), m.Address) == nil {
						continue
					}
				}
				elig = append(elig, m)
			}
			if len(elig) > 0 && !t.B {
				elig = []tsstypes.Member{pickOf(elig, t.sel(1))}
			}
			for _, m := range elig {
				seed := fmt.Sprintf("%d/%d/%d/%d", gid, m.ID, round, w.next())
				var msg sdk.Msg
				var derr error
				switch round {
				case 1:
					var dm *dkgMember
					dm, msg, derr = dkgRound1(seed, gr, gid, m.Address)
					if derr == nil {
						if w.dkgs[uint64(gid)] == nil {
							w.dkgs[uint64(gid)] = map[string]*dkgMember{}
						}
						w.dkgs[uint64(gid)][m.Address] = dm
					}
				case 2:
					msg, derr = dkgRound2(seed, gr, gid, m.Address, w.dkgMember(uint64(gid), m.Address))
				case 3:
					dm := w.dkgMember(uint64(gid), m.Address)
					msg, derr = dkgRound3(seed, gr, gid, m.Address, dm)
					if derr == nil && dm.priv != nil {
						if w.privs[uint64(gid)] == nil {
							w.privs[uint64(gid)] = map[string]tss.Scalar{}
						}
						w.privs[uint64(gid)][m.Address] = dm.priv
					}
				case 4:
					resp := tss.MemberID(uint64(m.ID)%uint64(len(members)) + 1)
					msg, derr = dkgFalseComplaint(seed, gr, gid, m.Address, w.dkgMember(uint64(gid), m.Address), resp)
				}
				if derr != nil || msg == nil {
					w.v.Count("dkg_unbuildable", 1)
					continue
				}
				w.seen[fmt.Sprintf("dkg/%d/%d/%d", gid, round, m.ID)] = true
				out = append(out, built{signer: w.acct(m.Address), msg: msg})
			}
		}
	}
	if len(out) > 0 {
		return out
	}
	// no group is in that round: a well-formed message for the newest group
	gid := tss.GroupID(w.ch.App.TSSKeeper.GetGroupCount(w.ctx))
	if gid == 0 {
		gid = 1
	}
	a := pickOf([]*sim.Account{w.u[uDelA], w.u[uDelB], w.u[1]}, t.sel(1))
	switch round {
	case 1:
		var info *tss.Round1Info
		var err error
		withDetRand(fmt.Sprintf("fallback/%d", w.next()), func() { info, err = tss.GenerateRound1Info(1, 2, bytes.Repeat([]byte{9}, 32)) })
		if err != nil {
			return nil
		}
		return []built{{a, tsstypes.NewMsgSubmitDKGRound1(gid, tsstypes.Round1Info{MemberID: 1, CoefficientCommits: info.CoefficientCommits,
			OneTimePubKey: info.OneTimePubKey, A0Signature: info.A0Signature, OneTimeSignature: info.OneTimeSignature}, a.Addr.String()), true}}
	case 2:
		return []built{{a, tsstypes.NewMsgSubmitDKGRound2(gid, tsstypes.Round2Info{MemberID: 1, EncryptedSecretShares: tss.EncSecretShares{bytes.Repeat([]byte{0xab}, 48)}}, a.Addr.String()), true}}
	case 3:
		return []built{{a, tsstypes.NewMsgConfirm(gid, 1, wellFormedSig, a.Addr.String()), true}}
	default:
		return []built{{a, tsstypes.NewMsgComplain(gid, []tsstypes.Complaint{{Complainant: 1, Respondent: 2, KeySym: tssworld.ScalarFrom("ks").Point(), Signature: wellFormedComplaintSig}}, a.Addr.String()), true}}
	}
}

func (w *world) template(ti int, t advTx) []built {
	ch, u, ctx := w.ch, w.u, w.ctx
	s0, s1, s2 := t.sel(0), t.sel(1), t.sel(2)
	one := func(a *sim.Account, m sdk.Msg) []built { return []built{{signer: a, msg: m}} }
	fb := func(a *sim.Account, m sdk.Msg) []built { return []built{{signer: a, msg: m, fallback: true}} }
	switch msgTypes[ti].url {
	// ---- oracle ----
	case "/band.oracle.v1.MsgRequestData":
		ok := ch.App.OracleKeeper
		p := ok.GetParams(ctx)
		n := int(ok.GetOracleScriptCount(ctx))
		if n == 0 {
			n = 1
		}
		act := len(w.activeVals())
		if act == 0 {
			act = 1
		}
		ask := clampU(uint64(1+s0%act), 1, p.MaxAskCount)
		min := uint64(1 + s1%int(ask))
		cd := []byte("calldata")
		if uint64(len(cd)) > p.MaxCalldataSize {
			cd = cd[:p.MaxCalldataSize]
		}
		return one(u[uReq], oracletypes.NewMsgRequestData(oracletypes.OracleScriptID(1+s2%n), cd, ask, min, fmt.Sprintf("c%d", w.next()), uband(1_000_000),
			100_000, 1_000_000, u[uReq].Addr, oracletypes.Encoder((s2/7)%4)))
	case "/band.oracle.v1.MsgReportData":
		ok := ch.App.OracleKeeper
		last, cnt := uint64(ok.GetRequestLastExpired(ctx)), ok.GetRequestCount(ctx)
		type cand struct {
			id  uint64
			val *sim.Account
			req oracletypes.Request
		}
		var cands []cand
		for id := cnt; id > last && id+30 > cnt; id-- {
			req, err := ok.GetRequest(ctx, oracletypes.RequestID(id))
			if err != nil {
				continue
			}
			for _, rv := range req.RequestedValidators {
				va := w.valAcct(rv)
				if va == nil || ok.HasReport(ctx, oracletypes.RequestID(id), va.Val) || w.seen[fmt.Sprintf("rep/%d/%s", id, rv)] {
					continue
				}
				cands = append(cands, cand{id, va, req})
			}
		}
		mk := func(c cand) built {
			var rr []oracletypes.RawReport
			for _, r := range c.req.RawRequests {
				rr = append(rr, oracletypes.NewRawReport(r.ExternalID, 0, []byte(fmt.Sprintf("d%d", w.next()%7))))
			}
			w.seen[fmt.Sprintf("rep/%d/%s", c.id, c.val.Val.String())] = true
			return built{signer: c.val, msg: oracletypes.NewMsgReportData(oracletypes.RequestID(c.id), rr, c.val.Val)}
		}
		if len(cands) == 0 {
			id := cnt
			if id == 0 {
				id = 1
			}
			v := pickOf(ch.Vals, s0)
			return fb(v, oracletypes.NewMsgReportData(oracletypes.RequestID(id), []oracletypes.RawReport{oracletypes.NewRawReport(1, 0, []byte("d"))}, v.Val))
		}
		c0 := pickOf(cands, s0)
		if !t.B {
			return []built{mk(c0)}
		}
		var out []built
		for _, c := range cands {
			if c.id == c0.id {
				out = append(out, mk(c))
			}
		}
		return out
	case "/band.oracle.v1.MsgCreateDataSource":
		n := w.next()
		fee := pickOf([]sdk.Coins{sdk.NewCoins(), uband(10), sdk.NewCoins(sdk.NewInt64Coin("uatom", 1), sdk.NewInt64Coin("uband", 2))}, s1)
		return one(u[uAdmin], oracletypes.NewMsgCreateDataSource(fmt.Sprintf("ds-%d", n), "generated", []byte(fmt.Sprintf("#!/bin/sh\necho generated-%d", n)), fee,
			pickOf(u, s0).Addr, u[uAdmin].Addr, u[uAdmin].Addr))
	case "/band.oracle.v1.MsgEditDataSource":
		ok := ch.App.OracleKeeper
		cnt := int(ok.GetDataSourceCount(ctx))
		if cnt == 0 {
			cnt = 1
		}
		id := oracletypes.DataSourceID(1 + s0%cnt)
		owner := u[uAdmin]
		if ds, err := ok.GetDataSource(ctx, id); err == nil && w.acct(ds.Owner) != nil {
			owner = w.acct(ds.Owner)
		}
		exec := oracletypes.DoNotModifyBytes
		if s1%2 == 1 {
			exec = []byte(fmt.Sprintf("#!/bin/sh\necho edited-%d", w.next()))
		}
		newOwner := owner
		if s2%5 == 0 {
			newOwner = u[uOut]
		}
		return one(owner, oracletypes.NewMsgEditDataSource(id, fmt.Sprintf("ds-e%d", w.next()), oracletypes.DoNotModify, exec, uband(int64(s2%20)), u[2].Addr, newOwner.Addr, owner.Addr))
	case "/band.oracle.v1.MsgCreateOracleScript":
		return one(u[uAdmin], oracletypes.NewMsgCreateOracleScript(fmt.Sprintf("os-%d", w.next()), "generated", "{a:u64}/{b:u64}", "https://example.org/x", pickOf(rawScripts, s0), u[uAdmin].Addr, u[uAdmin].Addr))
	case "/band.oracle.v1.MsgEditOracleScript":
		ok := ch.App.OracleKeeper
		cnt := int(ok.GetOracleScriptCount(ctx))
		if cnt == 0 {
			cnt = 1
		}
		id := oracletypes.OracleScriptID(1 + s0%cnt)
		owner := u[uAdmin]
		if os, err := ok.GetOracleScript(ctx, id); err == nil && w.acct(os.Owner) != nil {
			owner = w.acct(os.Owner)
		}
		code := oracletypes.DoNotModifyBytes
		if s1%2 == 1 {
			code = pickOf(rawScripts, s1/2)
		}
		return one(owner, oracletypes.NewMsgEditOracleScript(id, fmt.Sprintf("os-e%d", w.next()), "edited", oracletypes.DoNotModify, "https://example.org/y", code, owner.Addr, owner.Addr))
	case "/band.oracle.v1.MsgActivate":
		var inact []*sim.Account
		for _, v := range ch.Vals {
			if !ch.App.OracleKeeper.GetValidatorStatus(ctx, v.Val).IsActive {
				inact = append(inact, v)
			}
		}
		v := pickOf(ch.Vals, s0)
		if len(inact) > 0 {
			v = pickOf(inact, s0)
			return one(v, oracletypes.NewMsgActivate(v.Val))
		}
		return fb(v, oracletypes.NewMsgActivate(v.Val))
	case "/band.oracle.v1.MsgUpdateParams":
		p := ch.App.OracleKeeper.GetParams(ctx)
		m := &oracletypes.MsgUpdateParams{Authority: sim.GovAuthority(), Params: p}
		tweak(m, s0)
		return one(nil, m)

	// ---- tss ----
	case "/band.tss.v1beta1.MsgSubmitDKGRound1":
		return w.dkgTemplate(1, t)
	case "/band.tss.v1beta1.MsgSubmitDKGRound2":
		return w.dkgTemplate(2, t)
	case "/band.tss.v1beta1.MsgConfirm":
		return w.dkgTemplate(3, t)
	case "/band.tss.v1beta1.MsgComplain":
		return w.dkgTemplate(4, t)
	case "/band.tss.v1beta1.MsgSubmitDEs":
		pool := []*sim.Account{u[0], u[1], u[2], u[uDelA], u[uDelB], u[uOut]}
		if !t.B {
			a := pickOf(pool, s0)
			return one(a, tsstypes.NewMsgSubmitDEs(w.wallet.Fresh(a.Addr.String(), 1+s1%3), a.Addr.String()))
		}
		// burst: every member of the signing groups tops up its nonce queue
		var out []built
		maxDE := ch.App.TSSKeeper.GetParams(ctx).MaxDESize
		for _, a := range pool[:5] {
			q := ch.App.TSSKeeper.GetDEQueue(ctx, a.Addr)
			n := uint64(1 + s1%3)
			if have := q.Tail - q.Head; have+n > maxDE || w.seen["de/"+a.Addr.String()] {
				continue
			}
			w.seen["de/"+a.Addr.String()] = true
			out = append(out, built{signer: a, msg: tsstypes.NewMsgSubmitDEs(w.wallet.Fresh(a.Addr.String(), int(n)), a.Addr.String())})
		}
		if len(out) == 0 {
			a := pickOf(pool, s0)
			return one(a, tsstypes.NewMsgSubmitDEs(w.wallet.Fresh(a.Addr.String(), 1), a.Addr.String()))
		}
		return out
	case "/band.tss.v1beta1.MsgResetDE":
		a := pickOf([]*sim.Account{u[0], u[1], u[2], u[uDelA], u[uDelB], u[uOut]}, s0)
		return one(a, tsstypes.NewMsgResetDE(a.Addr.String()))
	case "/band.tss.v1beta1.MsgSubmitSignature":
		tk := ch.App.TSSKeeper
		cnt := tk.GetSigningCount(ctx)
		type cand struct {
			sid uint64
			am  tsstypes.AssignedMember
			sg  tsstypes.Signing
			sa  tsstypes.SigningAttempt
		}
		var cands []cand
		for sid := cnt; sid >= 1 && sid+20 > cnt; sid-- {
			sg, err := tk.GetSigning(ctx, tss.SigningID(sid))
			if err != nil || sg.Status != tsstypes.SIGNING_STATUS_WAITING {
				continue
			}
			sa, err := tk.GetSigningAttempt(ctx, tss.SigningID(sid), sg.CurrentAttempt)
			if err != nil {
				continue
			}
			for _, am := range sa.AssignedMembers {
				if w.acct(am.Address) == nil || tk.HasPartialSignature(ctx, tss.SigningID(sid), sa.Attempt, am.MemberID) || w.seen[fmt.Sprintf("sig/%d/%d", sid, am.MemberID)] {
					continue
				}
				if w.privs[uint64(sg.GroupID)] == nil || w.privs[uint64(sg.GroupID)][am.Address] == nil {
					continue
				}
				cands = append(cands, cand{sid, am, sg, sa})
			}
		}
		if len(cands) == 0 {
			sid := cnt
			if sid == 0 {
				sid = 1
			}
			return fb(u[0], tsstypes.NewMsgSubmitSignature(tss.SigningID(sid), 1, wellFormedSig, u[0].Addr.String()))
		}
		c0 := pickOf(cands, s0)
		var out []built
		for _, c := range cands {
			if c.sid != c0.sid || (!t.B && c.am.MemberID != c0.am.MemberID) {
				continue
			}
			priv := w.privs[uint64(c.sg.GroupID)][c.am.Address]
			mem := &tssworld.Member{ID: c.am.MemberID, Addr: c.am.Address, Priv: priv, Pub: c.am.PubKey}
			ps, err := tssworld.PartialSignature(mem, w.wallet, c.sg, c.sa)
			if err != nil {
				w.v.Count("partial_signature_unbuildable", 1)
				ps = wellFormedSig
			}
			w.seen[fmt.Sprintf("sig/%d/%d", c.sid, c.am.MemberID)] = true
			out = append(out, built{signer: w.acct(c.am.Address), msg: tsstypes.NewMsgSubmitSignature(tss.SigningID(c.sid), c.am.MemberID, ps, c.am.Address)})
		}
		return out
	case "/band.tss.v1beta1.MsgUpdateParams":
		m := &tsstypes.MsgUpdateParams{Authority: sim.GovAuthority(), Params: ch.App.TSSKeeper.GetParams(ctx)}
		tweak(m, s0)
		return one(nil, m)

	// ---- bandtss ----
	case "/band.bandtss.v1beta1.MsgRequestSignature":
		var content tsstypes.Content
		switch s0 % 8 {
		case 0, 1, 2, 3:
			content = tsstypes.NewTextSignatureOrder([]byte(fmt.Sprintf("text to sign %d", w.next())))
		case 4:
			ok := ch.App.OracleKeeper
			rid := uint64(1)
			for id := ok.GetRequestCount(ctx); id >= 1 && id+20 > ok.GetRequestCount(ctx); id-- {
				if ok.HasResult(ctx, oracletypes.RequestID(id)) {
					rid = id
					break
				}
			}
			content = oracletypes.NewOracleResultSignatureOrder(oracletypes.RequestID(rid), oracletypes.Encoder(1+s1%3))
		case 5:
			var ids []string
			for i, f := range ch.App.FeedsKeeper.GetCurrentFeeds(ctx).Feeds {
				if i < 1+s1%3 {
					ids = append(ids, f.SignalID)
				}
			}
			if len(ids) == 0 {
				ids = []string{"S1"}
			}
			content = feedstypes.NewFeedSignatureOrder(ids, feedstypes.Encoder(1+s2%2))
		case 6:
			content = tunneltypes.NewTunnelSignatureOrder(1, []feedstypes.Price{{Status: feedstypes.PRICE_STATUS_AVAILABLE, SignalID: "S1", Price: 5, Timestamp: 1}}, 1, feedstypes.ENCODER_FIXED_POINT_ABI)
		default:
			content = bandtsstypes.NewGroupTransitionSignatureOrder(tssworld.ScalarFrom("tr").Point(), w.nextT.Add(time.Hour))
		}
		m, err := bandtsstypes.NewMsgRequestSignature(content, uband(1000), u[uReq].Addr.String())
		if err != nil {
			return nil
		}
		m.Memo = pickOf([]string{"", "memo"}, s2)
		if content.IsInternal() {
			return fb(u[uReq], m) // module-internal orders are refused by design
		}
		return one(u[uReq], m)
	case "/band.bandtss.v1beta1.MsgActivate":
		ms := ch.App.BandtssKeeper.GetMembers(ctx)
		var inact, known []bandtsstypes.Member
		for _, m := range ms {
			if w.acct(m.Address) == nil {
				continue
			}
			known = append(known, m)
			if !m.IsActive {
				inact = append(inact, m)
			}
		}
		if len(known) == 0 {
			return one(u[0], bandtsstypes.NewMsgActivate(u[0].Addr.String(), 1))
		}
		m := pickOf(known, s0)
		if len(inact) > 0 {
			if t.B {
				var out []built
				for _, m := range inact {
					out = append(out, built{signer: w.acct(m.Address), msg: bandtsstypes.NewMsgActivate(m.Address, m.GroupID)})
				}
				return out
			}
			m = pickOf(inact, s0)
			return one(w.acct(m.Address), bandtsstypes.NewMsgActivate(m.Address, m.GroupID))
		}
		return fb(w.acct(m.Address), bandtsstypes.NewMsgActivate(m.Address, m.GroupID))
	case "/band.bandtss.v1beta1.MsgUpdateParams":
		m := &bandtsstypes.MsgUpdateParams{Authority: sim.GovAuthority(), Params: ch.App.BandtssKeeper.GetParams(ctx)}
		tweak(m, s0)
		return one(nil, m)
	case "/band.bandtss.v1beta1.MsgTransitionGroup":
		candidates := []*sim.Account{u[uDelA], u[uDelB], u[1], u[2], u[uOut]}
		var members []string
		mask := 1 + s0%31
		for i, a := range candidates {
			if mask&(1<<uint(i)) != 0 {
				members = append(members, a.Addr.String())
			}
		}
		thr := uint64(1 + s1%len(members))
		return one(nil, bandtsstypes.NewMsgTransitionGroup(members, thr, w.execTime(s2), sim.GovAuthority()))
	case "/band.bandtss.v1beta1.MsgForceTransitionGroup":
		cur := ch.App.BandtssKeeper.GetCurrentGroup(ctx).GroupID
		var good []tss.GroupID
		for _, g := range w.groupsIn(tsstypes.GROUP_STATUS_ACTIVE) {
			if g.ID != cur {
				good = append(good, g.ID)
			}
		}
		gid := tss.GroupID(ch.App.TSSKeeper.GetGroupCount(ctx))
		if len(good) > 0 {
			gid = pickOf(good, s0)
		}
		if gid == 0 {
			gid = 1
		}
		return one(nil, bandtsstypes.NewMsgForceTransitionGroup(gid, w.execTime(s2), sim.GovAuthority()))

	// ---- feeds ----
	case "/band.feeds.v1beta1.MsgVote":
		a := pickOf([]*sim.Account{u[uDelA], u[uDelB], u[uDelA], ch.Vals[0], ch.Vals[1], u[uOut]}, s0)
		pw, err := ch.App.RestakeKeeper.GetTotalPower(ctx, a.Addr)
		power := int64(1000)
		if err == nil && pw.IsInt64() && pw.IsPositive() {
			power = pw.Int64()
		}
		k := 1 + s1%3
		if mx := ch.App.FeedsKeeper.GetParams(ctx).MaxCurrentFeeds; uint64(k) > mx && mx > 0 {
			k = int(mx)
		}
		var sigs []feedstypes.Signal
		for _, id := range w.signals(k, s2) {
			if p := power / int64(k); p > 0 {
				sigs = append(sigs, feedstypes.Signal{ID: id, Power: p})
			}
		}
		return one(a, feedstypes.NewMsgVote(a.Addr.String(), sigs))
	case "/band.feeds.v1beta1.MsgSubmitSignalPrices":
		vals := ch.Vals
		if av := w.activeVals(); len(av) > 0 {
			vals = av
		}
		if !t.B {
			vals = []*sim.Account{pickOf(vals, s0)}
		}
		var out []built
		cur := ch.App.FeedsKeeper.GetCurrentFeeds(ctx)
		for vi, v := range vals {
			if w.seen["price/"+v.Val.String()] {
				continue
			}
			w.seen["price/"+v.Val.String()] = true
			var sp []feedstypes.SignalPrice
			for j, f := range cur.Feeds {
				if j >= 6 {
					break
				}
				p := feedstypes.SignalPrice{Status: feedstypes.SIGNAL_PRICE_STATUS_AVAILABLE, SignalID: f.SignalID, Price: uint64(1000*(j+1) + (s1+w.ctr)%500 + 7*vi)}
				switch (s2 + j) % 9 {
				case 0:
					p.Status, p.Price = feedstypes.SIGNAL_PRICE_STATUS_UNSUPPORTED, 0
				case 1:
					p.Status, p.Price = feedstypes.SIGNAL_PRICE_STATUS_UNAVAILABLE, 0
				case 2:
					p.Price = p.Price * 3
				}
				sp = append(sp, p)
			}
			out = append(out, built{signer: v, msg: feedstypes.NewMsgSubmitSignalPrices(v.Val.String(), w.nextT.Unix(), sp)})
		}
		return out
	case "/band.feeds.v1beta1.MsgUpdateReferenceSourceConfig":
		admin := u[uAdmin]
		if a := w.acct(ch.App.FeedsKeeper.GetParams(ctx).Admin); a != nil {
			admin = a
		}
		return one(admin, feedstypes.NewMsgUpdateReferenceSourceConfig(admin.Addr.String(), feedstypes.ReferenceSourceConfig{RegistryIPFSHash: fmt.Sprintf("Qm%d", w.next()), RegistryVersion: fmt.Sprintf("1.%d.0", s0%50)}))
	case "/band.feeds.v1beta1.MsgUpdateParams":
		m := &feedstypes.MsgUpdateParams{Authority: sim.GovAuthority(), Params: ch.App.FeedsKeeper.GetParams(ctx)}
		tweak(m, s0)
		return one(nil, m)

	// ---- tunnel ----
	case "/band.tunnel.v1beta1.MsgCreateTunnel":
		p := ch.App.TunnelKeeper.GetParams(ctx)
		creator := pickOf([]*sim.Account{u[uCreator], u[uReq], u[uOut]}, s0/3)
		dep := pickOf([]sdk.Coins{p.MinDeposit, sdk.NewCoins(), p.MinDeposit.Add(sdk.NewInt64Coin("uband", 5))}, s2)
		interval := clampU(uint64(2+s2%50), p.MinInterval, p.MaxInterval)
		var m *tunneltypes.MsgCreateTunnel
		var err error
		if s0%3 == 2 {
			m, err = tunneltypes.NewMsgCreateIBCTunnel(w.deviations(1+s1%3, s1/3), interval, dep, creator.Addr.String())
		} else {
			m, err = tunneltypes.NewMsgCreateTSSTunnel(w.deviations(1+s1%3, s1/3), interval, "eth", "0xabc", feedstypes.Encoder(1+s1%2), dep, creator.Addr.String())
		}
		if err != nil {
			return nil
		}
		return one(creator, m)
	case "/band.tunnel.v1beta1.MsgUpdateRoute":
		tn, a, hit := w.pickTunnel(func(t tunneltypes.Tunnel) bool {
			return t.Route != nil && strings.HasSuffix(t.Route.TypeUrl, "IBCRoute") && t.ID == 2
		}, s0)
		m, err := tunneltypes.NewMsgUpdateIBCRoute(tn.ID, "channel-0", a.Addr.String())
		if err != nil {
			return nil
		}
		if !hit {
			return fb(a, m)
		}
		return one(a, m)
	case "/band.tunnel.v1beta1.MsgUpdateSignalsAndInterval":
		p := ch.App.TunnelKeeper.GetParams(ctx)
		tn, a, _ := w.pickTunnel(nil, s0)
		return one(a, tunneltypes.NewMsgUpdateSignalsAndInterval(tn.ID, w.deviations(1+s1%4, s1/4), clampU(uint64(1+s2%40), p.MinInterval, p.MaxInterval), a.Addr.String()))
	case "/band.tunnel.v1beta1.MsgActivate":
		tn, a, hit := w.pickTunnel(func(t tunneltypes.Tunnel) bool { return !t.IsActive }, s0)
		if !hit {
			return fb(a, tunneltypes.NewMsgActivate(tn.ID, a.Addr.String()))
		}
		return one(a, tunneltypes.NewMsgActivate(tn.ID, a.Addr.String()))
	case "/band.tunnel.v1beta1.MsgDeactivate":
		tn, a, hit := w.pickTunnel(func(t tunneltypes.Tunnel) bool { return t.IsActive }, s0)
		if !hit {
			return fb(a, tunneltypes.NewMsgDeactivate(tn.ID, a.Addr.String()))
		}
		return one(a, tunneltypes.NewMsgDeactivate(tn.ID, a.Addr.String()))
	case "/band.tunnel.v1beta1.MsgTriggerTunnel":
		tn, a, hit := w.pickTunnel(func(t tunneltypes.Tunnel) bool { return t.IsActive }, s0)
		if !hit {
			return fb(a, tunneltypes.NewMsgTriggerTunnel(tn.ID, a.Addr.String()))
		}
		return one(a, tunneltypes.NewMsgTriggerTunnel(tn.ID, a.Addr.String()))
	case "/band.tunnel.v1beta1.MsgDepositToTunnel":
		tn, _, _ := w.pickTunnel(nil, s0)
		a := pickOf([]*sim.Account{u[uCreator], u[uReq], u[uOut]}, s1)
		return one(a, tunneltypes.NewMsgDepositToTunnel(tn.ID, uband(int64(1+s2%30)), a.Addr.String()))
	case "/band.tunnel.v1beta1.MsgWithdrawFromTunnel":
		deps := ch.App.TunnelKeeper.GetAllDeposits(ctx)
		var mine []tunneltypes.Deposit
		for _, d := range deps {
			if w.acct(d.Depositor) != nil && !d.Amount.IsZero() {
				mine = append(mine, d)
			}
		}
		if len(mine) == 0 {
			return fb(u[uCreator], tunneltypes.NewMsgWithdrawFromTunnel(1, uband(1), u[uCreator].Addr.String()))
		}
		d := pickOf(mine, s0)
		amt := d.Amount
		switch s1 % 3 {
		case 1:
			amt = sdk.NewCoins(sdk.NewCoin(d.Amount[0].Denom, d.Amount[0].Amount.QuoRaw(2).Add(math.OneInt())))
		case 2:
			amt = sdk.NewCoins(sdk.NewCoin(d.Amount[0].Denom, math.OneInt()))
		}
		return one(w.acct(d.Depositor), tunneltypes.NewMsgWithdrawFromTunnel(d.TunnelID, amt, d.Depositor))
	case "/band.tunnel.v1beta1.MsgUpdateParams":
		m := &tunneltypes.MsgUpdateParams{Authority: sim.GovAuthority(), Params: ch.App.TunnelKeeper.GetParams(ctx)}
		tweak(m, s0)
		return one(nil, m)

	// ---- restake ----
	case "/band.restake.v1beta1.MsgStake":
		a := pickOf([]*sim.Account{u[uDelA], u[uDelB], u[uOut], ch.Vals[0]}, s0)
		return one(a, restaketypes.NewMsgStake(a.Addr, uband(int64(1+s1%9)*100_000)))
	case "/band.restake.v1beta1.MsgUnstake":
		var mine []restaketypes.Stake
		for _, st := range ch.App.RestakeKeeper.GetStakes(ctx) {
			if w.acct(st.StakerAddress) != nil && !st.Coins.IsZero() {
				mine = append(mine, st)
			}
		}
		if len(mine) == 0 {
			return fb(u[uDelA], restaketypes.NewMsgUnstake(u[uDelA].Addr, uband(1)))
		}
		st := pickOf(mine, s0)
		amt := st.Coins
		switch s1 % 3 {
		case 1:
			amt = sdk.NewCoins(sdk.NewCoin(st.Coins[0].Denom, st.Coins[0].Amount.QuoRaw(2).Add(math.OneInt())))
		case 2:
			amt = sdk.NewCoins(sdk.NewCoin(st.Coins[0].Denom, math.OneInt()))
		}
		a := w.acct(st.StakerAddress)
		return one(a, restaketypes.NewMsgUnstake(a.Addr, amt))
	case "/band.restake.v1beta1.MsgUpdateParams":
		p := ch.App.RestakeKeeper.GetParams(ctx)
		p.AllowedDenoms = pickOf([][]string{{"uband"}, {"uband", "uatom"}, {"uband"}, {"uatom", "uband"}, {"uatom"}, {}}, s0)
		return one(nil, &restaketypes.MsgUpdateParams{Authority: sim.GovAuthority(), Params: p})
	case "/band.globalfee.v1beta1.MsgUpdateParams":
		p := ch.App.GlobalFeeKeeper.GetParams(ctx)
		p.MinimumGasPrices = pickOf([]sdk.DecCoins{
			{}, {sdk.NewDecCoinFromDec("uband", math.LegacyNewDecWithPrec(25, 4))}, {sdk.NewDecCoinFromDec("uband", math.LegacyNewDecWithPrec(1, 18))},
			{sdk.NewDecCoinFromDec("uatom", math.LegacyOneDec()), sdk.NewDecCoinFromDec("uband", math.LegacyNewDec(1000))}}, s0)
		return one(nil, &globalfeetypes.MsgUpdateParams{Authority: sim.GovAuthority(), Params: p})
	}
	return nil
}

// execTime for transitions: the proposal executes at the first block at/after the end of the voting period.
func (w *world) execTime(s int) time.Time {
	p := w.ch.App.BandtssKeeper.GetParams(w.ctx)
	slack := pickOf([]time.Duration{0, time.Second, 5 * time.Second, 60 * time.Second, 200 * time.Second, 100_003 * time.Second, 100_003 * time.Second}, s)
	return w.nextT.Add(w.ch.Cfg.GovVoting + p.MinTransitionDuration + slack)
}

type hasVB interface{ ValidateBasic() error }

// tweak makes an un-mutated parameter update a real change: one integer parameter moves by one (kept only if
// the module's own validation accepts the result).
func tweak(m proto.Message, s int) {
	var ls []leaf
	collectLeaves(reflectParams(m), ".Params", &ls, 0)
	var ints []leaf
	for _, l := range ls {
		if l.kind == "uint" || l.kind == "int" {
			ints = append(ints, l)
		}
	}
	if len(ints) == 0 {
		return
	}
	l := pickOf(ints, s)
	if l.kind == "uint" {
		old := l.v.Uint()
		l.v.SetUint(old + 1)
		if vb, ok := m.(hasVB); ok && vb.ValidateBasic() != nil {
			l.v.SetUint(old)
		}
	} else {
		old := l.v.Int()
		l.v.SetInt(old + 1)
		if vb, ok := m.(hasVB); ok && vb.ValidateBasic() != nil {
			l.v.SetInt(old)
		}
	}
}

func sortedKeys(m map[string]int64) []string {
	ks := make([]string, 0, len(m))
	for k := range m {
		ks = append(ks, k)
	}
	sort.Strings(ks)
	return ks
}

var _ = codectypes.NewAnyWithValue
