package c02adv

// How one generated op becomes transactions: a single message, several messages in one transaction (several signers),
// messages wrapped in authz MsgExec (by the grantee, without a grant, nested, by the signer itself), governance
// proposals carrying one or several authority-only messages, and the authz grants/revocations themselves.

import (
	"fmt"
	"regexp"
	"strconv"
	"strings"
	"time"

	sdk "github.com/cosmos/cosmos-sdk/types"
	"github.com/cosmos/cosmos-sdk/x/authz"
	govv1 "github.com/cosmos/cosmos-sdk/x/gov/types/v1"
	"github.com/cosmos/gogoproto/proto"

	"verif/harness/sim"
)

var (
	moduleNames   = []string{"oracle", "tss", "bandtss", "feeds", "tunnel", "restake", "globalfee"}
	typesOfModule = func() [][]int {
		out := make([][]int, len(moduleNames))
		for i, t := range msgTypes {
			out[moduleIndex(t.module)] = append(out[moduleIndex(t.module)], i)
		}
		return out
	}()
	plainTypesOfModule = func() [][]int {
		out := make([][]int, len(moduleNames))
		for i, t := range msgTypes {
			if !t.gov {
				out[moduleIndex(t.module)] = append(out[moduleIndex(t.module)], i)
			}
		}
		return out
	}()
	plainTypes = func() []int {
		var out []int
		for i, t := range msgTypes {
			if !t.gov {
				out = append(out, i)
			}
		}
		return out
	}()
	govTypes = func() []int {
		var out []int
		for i, t := range msgTypes {
			if t.gov {
				out = append(out, i)
			}
		}
		return out
	}()
)

func moduleIndex(m string) int {
	for i, n := range moduleNames {
		if n == m {
			return i
		}
	}
	return 0
}

// buildComps builds the message(s) of an op from the template of its type and applies the mutations.
func (w *world) buildComps(t advTx) []*comp {
	if t.T < 0 || t.T >= len(msgTypes) {
		return nil
	}
	mt := msgTypes[t.T]
	var out []*comp
	for _, bt := range w.safeTemplate(t.T, t) {
		if t.maint && bt.fallback {
			continue
		}
		msg := bt.msg
		c := &comp{ti: t.T, signer: bt.signer, fallback: bt.fallback}
		for _, mu := range t.M {
			pm, ok := msg.(proto.Message)
			if !ok {
				break
			}
			var prev proto.Message
			if mt.gov {
				prev = cloneMsg(pm) // (authority-only messages carry no Any)
			}
			kind, desc := safeMutate(w.env, pm, mu.P, mu.K)
			if desc == "" {
				continue
			}
			if mt.gov && prev != nil && w.inAvoidedRegion(msg) {
				msg = prev.(sdk.Msg)
				w.v.Count("avoided_known_region", 1)
				continue
			}
			if mt.gov && prev != nil && safeVB(msg) != nil && (mu.K/5)%8 != 0 {
				// parameter values the module's own validation refuses are outside the domain (1 in 8 is sent anyway)
				msg = prev.(sdk.Msg)
				w.v.Count("param_mutation_refused_by_validate", 1)
				continue
			}
			c.mutated = true
			c.kinds = append(c.kinds, kind)
			c.descs = append(c.descs, desc)
		}
		c.msg, c.url, c.vbFail = msg, sdk.MsgTypeURL(msg), safeVB(msg) != nil
		out = append(out, c)
	}
	return out
}

// signersOf returns the accounts the messages name as their signers, in the order a node derives them (first
// appearance); ok is false when some message names nobody we control (or its signer field does not parse).
func (w *world) signersOf(msgs []sdk.Msg) (out []*sim.Account, ok bool) {
	ok = true
	seen := map[string]bool{}
	for _, m := range msgs {
		a, parses := w.declaredSigner(m)
		if !parses || a == nil {
			ok = false
			continue
		}
		if !seen[a.Addr.String()] {
			seen[a.Addr.String()] = true
			out = append(out, a)
		}
	}
	return out, ok
}

func (w *world) agent() *sim.Account  { return w.u[uAgent] }
func (w *world) agent2() *sim.Account { return w.u[uAgent2] }

type txSink func(signers []*sim.Account, anteOK bool, meta *txMeta, msgs ...sdk.Msg)

func compsDesc(cs []*comp) string {
	var parts []string
	for _, c := range cs {
		parts = append(parts, shortName(c.url)+"{"+strings.Join(c.descs, ";")+"}")
	}
	return strings.Join(parts, " + ")
}

// emit turns one op into transactions.
func (w *world) emit(t advTx, add txSink) {
	if t.T < 0 || t.T >= len(msgTypes) {
		return
	}
	mt := msgTypes[t.T]
	first := w.buildComps(t)
	if len(first) == 0 {
		w.v.Count("inapplicable/"+shortName(mt.url), 1)
		return
	}
	wrongSigner := func(declared []*sim.Account) *sim.Account {
		cands := []*sim.Account{w.u[uOut], w.ghost, w.u[uSpare], w.u[uVoter]}
		for i := 0; i < len(cands); i++ {
			s := pickOf(cands, t.sel(2)+i)
			named := false
			for _, d := range declared {
				named = named || s.Addr.Equals(d.Addr)
			}
			if !named {
				return s
			}
		}
		return w.ghost
	}
	// plain transaction (one or several messages)
	sendTx := func(meta *txMeta, fallbackSigner *sim.Account, msgs ...sdk.Msg) {
		signers, known := w.signersOf(msgs)
		anteOK := known
		for _, m := range msgs {
			if safeVB(m) != nil {
				anteOK = false
			}
		}
		if t.W {
			meta.wrong, anteOK = true, false
			signers = []*sim.Account{wrongSigner(signers)}
		}
		if len(signers) == 0 {
			if fallbackSigner == nil {
				fallbackSigner = w.u[uOut]
			}
			signers = []*sim.Account{fallbackSigner}
		}
		add(signers, anteOK, meta, msgs...)
	}
	propose := func(meta *txMeta, cs []*comp) {
		var msgs []sdk.Msg
		accepted := true
		for _, c := range cs {
			msgs = append(msgs, c.msg)
			if auth, parses := w.declaredAddr(c.msg); c.vbFail || !parses || auth != sim.GovAuthority() {
				accepted = false
			}
		}
		prop, perr := govv1.NewMsgSubmitProposal(msgs, uband(10), w.ch.Vals[0].Addr.String(), "", "t", "s", false)
		if perr != nil {
			w.v.Count("tx_unbuildable", 1)
			return
		}
		pid, perr := w.ch.App.GovKeeper.ProposalID.Peek(w.ctx)
		if perr != nil {
			pid = 1
		}
		pid += w.propsInBlock
		if accepted {
			w.propsInBlock++ // (a submission gov is going to refuse does not consume a proposal id)
		}
		meta.pid = pid
		// gov runs ValidateBasic of the inner messages when the proposal is submitted (in the msg server, after ante)
		add([]*sim.Account{w.ch.Vals[0]}, true, meta, prop)
		for _, val := range w.ch.Vals {
			add([]*sim.Account{val}, true, &txMeta{kind: "vote", pid: pid}, govv1.NewMsgVote(val.Addr, pid, govv1.OptionYes, ""))
		}
	}

	// ---- authz grant / revoke of the message type ----
	if t.G != 0 {
		c := first[0]
		granter := c.signer
		if a, parses := w.declaredSigner(c.msg); parses && a != nil {
			granter = a
		}
		if granter == nil || mt.gov {
			granter = w.ch.Vals[0] // (the authority cannot grant anything: somebody grants a useless authorization)
		}
		grantee := pickOf([]*sim.Account{w.agent(), w.agent(), w.agent(), w.agent2(), w.u[uOut]}, t.sel(1))
		if grantee.Addr.Equals(granter.Addr) {
			grantee = w.agent2()
		}
		var msg sdk.Msg
		kind := "grant"
		if t.G == 1 {
			var exp *time.Time
			if d := pickOf([]time.Duration{0, 0, time.Second, 5 * time.Second, 100_000 * time.Second}, t.sel(2)); d > 0 {
				e := w.nextT.Add(d)
				exp = &e
			}
			g, err := authz.NewMsgGrant(granter.Addr, grantee.Addr, authz.NewGenericAuthorization(mt.url), exp)
			if err != nil {
				return
			}
			msg = g
		} else {
			kind = "revoke"
			r := authz.NewMsgRevoke(granter.Addr, grantee.Addr, mt.url)
			msg = &r
		}
		gc := &comp{ti: t.T, signer: granter, msg: msg}
		for _, mu := range t.M {
			if k, d := safeMutate(w.env, msg.(proto.Message), mu.P, mu.K); d != "" {
				gc.mutated = true
				gc.kinds, gc.descs = append(gc.kinds, k), append(gc.descs, d)
			}
		}
		gc.url, gc.vbFail = sdk.MsgTypeURL(msg), safeVB(msg) != nil
		sendTx(&txMeta{kind: kind, comps: []*comp{gc}}, granter, msg)
		return
	}

	// ---- the classic shapes: one message per tx (bursts: one tx per member), authority-only through a proposal ----
	if len(t.X) == 0 && t.E == 0 {
		for _, c := range first {
			kind := "single"
			if t.maint {
				kind = "maint"
			}
			meta := &txMeta{kind: kind, comps: []*comp{c}}
			if mt.gov {
				meta.kind = "prop"
				propose(meta, meta.comps)
				continue
			}
			sendTx(meta, c.signer, c.msg)
		}
		return
	}

	// ---- several messages ----
	comps := first[:1]
	for _, x := range t.X {
		if cs := w.buildComps(x.asTx()); len(cs) > 0 {
			comps = append(comps, cs[0])
		}
	}
	if t.E == 0 {
		if mt.gov {
			propose(&txMeta{kind: "prop", comps: comps}, comps)
			return
		}
		var msgs []sdk.Msg
		for _, c := range comps {
			msgs = append(msgs, c.msg)
		}
		sendTx(&txMeta{kind: "multi", comps: comps}, comps[0].signer, msgs...)
		return
	}

	// ---- authz: MsgExec ----
	groups := [][]*comp{comps}
	if len(t.X) == 0 { // a burst through authz: every member's message in its own MsgExec (this is how the daemons send them)
		groups = nil
		for _, c := range first {
			groups = append(groups, []*comp{c})
		}
	}
	for _, cs := range groups {
		var inner []sdk.Msg
		for _, c := range cs {
			inner = append(inner, c.msg)
		}
		grantee := w.agent()
		switch t.E {
		case 2:
			grantee = w.u[uSpare] // nobody granted this account anything
		case 4:
			if a, parses := w.declaredSigner(inner[0]); parses && a != nil {
				grantee = a
			}
		}
		ex := authz.NewMsgExec(grantee.Addr, inner)
		var msg sdk.Msg = &ex
		if t.E == 3 {
			outer := authz.NewMsgExec(w.agent2().Addr, []sdk.Msg{&ex})
			msg = &outer
		}
		sendTx(&txMeta{kind: "exec", comps: cs, exec: t.E}, grantee, msg)
	}
}

var reMsgIndex = regexp.MustCompile(`message index: (\d+)`)

// failedIndex extracts the index of the message that failed from a tx log (-1: the tx failed before any message ran).
func failedIndex(log string) int {
	m := reMsgIndex.FindStringSubmatch(log)
	if m == nil {
		return -1
	}
	n, err := strconv.Atoi(m[1])
	if err != nil {
		return -1
	}
	return n
}

var rePropMsg = regexp.MustCompile(`but msg (\d+) `)

func describe(m *txMeta) string {
	s := m.kind
	if m.kind == "exec" {
		s = fmt.Sprintf("exec#%d", m.exec)
	}
	return s + "[" + compsDesc(m.comps) + "]"
}
