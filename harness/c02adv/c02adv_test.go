// Package c02adv is the adversarial generator stage of property C02 ("Block execution is total and deterministic"):
// histories whose transactions are adversarial variants of EVERY message type of the custom modules
// (oracle, tss, bandtss, feeds, tunnel, restake, globalfee), authority-only messages through real governance
// proposals, block time steps from 0 to more than a day. The oracle (no FinalizeBlock error / panic, replicas
// agree) lives in chainsim's replica mode; this stage only has to produce the histories and attribute a failed
// block.
package c02adv

import (
	"bytes"
	"context"
	"encoding/json"
	"fmt"
	"os"
	"path/filepath"
	"reflect"
	"sort"
	"strings"
	"testing"
	"time"

	abci "github.com/cometbft/cometbft/abci/types"
	"pgregory.net/rapid"

	sdk "github.com/cosmos/cosmos-sdk/types"
	"github.com/cosmos/cosmos-sdk/types/tx/signing"
	authsign "github.com/cosmos/cosmos-sdk/x/auth/signing"
	govv1 "github.com/cosmos/cosmos-sdk/x/gov/types/v1"
	"github.com/cosmos/gogoproto/proto"

	"cosmossdk.io/math"

	"github.com/bandprotocol/chain/v3/pkg/tss"
	bandtsstypes "github.com/bandprotocol/chain/v3/x/bandtss/types"
	oracletypes "github.com/bandprotocol/chain/v3/x/oracle/types"
	tunneltypes "github.com/bandprotocol/chain/v3/x/tunnel/types"

	"verif/harness/gen"
	"verif/harness/pbt"
	"verif/harness/sim"
)

// ---- case --------------------------------------------------------------------------------------------------

type advMut struct {
	P int `json:"p"` // which field (index mod number of leaves of the message)
	K int `json:"k"` // which adversarial value of the field's kind
}

type advTx struct {
	T int      `json:"t"`           // index into msgTypes
	S []int    `json:"s,omitempty"` // late-bound selectors of the template
	M []advMut `json:"m,omitempty"` // mutations (empty = the valid template)
	W bool     `json:"w,omitempty"` // signed by somebody else than the message names
	B bool     `json:"b,omitempty"` // burst: one tx per eligible member / validator (DKG rounds, signatures, reports, prices)

	maint bool // (not part of the case) inserted by a block's Maint flag
}

func (t advTx) sel(i int) int {
	if i < len(t.S) && t.S[i] >= 0 {
		return t.S[i]
	}
	return 0
}

type advBlock struct {
	Dt    int     `json:"dt"`
	Maint bool    `json:"maint,omitempty"` // diligent members: before the generated txs every assigned member signs, inactive members re-activate, nonce queues are topped up
	Txs   []advTx `json:"txs,omitempty"`
}

type advCase struct {
	NVals           int        `json:"nvals"`
	LastInactive    bool       `json:"last_inactive,omitempty"`    // the last validator is not oracle-activated in set-up
	SecondGroup     bool       `json:"second_group,omitempty"`     // a second ACTIVE genesis group (target of forced transitions)
	SetupTransition bool       `json:"setup_transition,omitempty"` // a group transition (DKG) is proposed in the first block
	Cfg             []int      `json:"cfg"`                        // parameter presets (see buildConfig)
	Blocks          []advBlock `json:"blocks"`
}

const nCfg = 18

// regions the generator keeps away from (signatures of findings already reported), VERIF_C02ADV_AVOID=a,b
var avoid = func() map[string]bool {
	m := map[string]bool{}
	for _, s := range strings.Split(os.Getenv("VERIF_C02ADV_AVOID"), ",") {
		if s = strings.TrimSpace(s); s != "" {
			m[s] = true
		}
	}
	return m
}()

func genAdv(rt *rapid.T) advCase {
	c := advCase{NVals: gen.Range(rt, "nvals", 2, 4), LastInactive: gen.Chance(rt, "lastinactive", 1, 3),
		SecondGroup: gen.Chance(rt, "group2", 1, 2), SetupTransition: gen.Chance(rt, "transition", 1, 2)}
	for i := 0; i < nCfg; i++ {
		c.Cfg = append(c.Cfg, gen.Uniform(rt, "cfg", 60))
	}
	nb := rapid.IntRange(10, 40).Draw(rt, "nblocks")
	diligent := gen.Chance(rt, "diligent", 1, 2)
	for b := 0; b < nb; b++ {
		blk := advBlock{Dt: gen.OneOf(rt, "dt", 0, 1, 1, 1, 3, 3, 60, 100000), Maint: diligent && gen.Chance(rt, "maint", 1, 2)}
		ntx := gen.Range(rt, "ntx", 0, 12)
		for i := 0; i < ntx; i++ {
			t := advTx{T: gen.Uniform(rt, "type", len(msgTypes)), B: gen.Chance(rt, "burst", 1, 2)}
			for j := 0; j < 3; j++ {
				t.S = append(t.S, gen.Uniform(rt, "sel", 1<<12))
			}
			if gen.Chance(rt, "mutate", 1, 2) {
				nm := gen.Pick(rt, "nmut", 6, 3, 1) + 1
				for j := 0; j < nm; j++ {
					t.M = append(t.M, advMut{P: gen.Uniform(rt, "path", 1<<10), K: gen.Uniform(rt, "kind", 1<<12)})
				}
			}
			t.W = gen.Chance(rt, "wrongsigner", 1, 40)
			blk.Txs = append(blk.Txs, t)
		}
		c.Blocks = append(c.Blocks, blk)
	}
	return c
}

// ---- execution -----------------------------------------------------------------------------------------------

type txMeta struct {
	ti       int    // message type index (-1: governance vote)
	url      string // actual message type of the (first) message
	mutated  bool
	kinds    []string // kinds of the mutated fields
	descs    []string
	wrong    bool
	vbFail   bool
	gov      bool
	pid      uint64
	msg      sdk.Msg
	fallback bool
	maint    bool
}

func reflectParams(m proto.Message) reflect.Value {
	v := reflect.ValueOf(m)
	if v.Kind() == reflect.Ptr {
		v = v.Elem()
	}
	if v.Kind() != reflect.Struct {
		return reflect.Value{}
	}
	return v.FieldByName("Params")
}

// safeTemplate: templates do arithmetic on parameters the history itself may have pushed to extremes (coin amounts
// near 2^256 ...); a panic there means "no valid message can be built", never a harness failure.
func (w *world) safeTemplate(ti int, t advTx) (out []built) {
	defer func() {
		if r := recover(); r != nil {
			w.v.Count("template_panic", 1)
			out = nil
		}
	}()
	return w.template(ti, t)
}

func safeVB(m sdk.Msg) (err error) {
	defer func() {
		if r := recover(); r != nil {
			err = fmt.Errorf("ValidateBasic panic: %v", r)
		}
	}()
	if vb, ok := m.(hasVB); ok {
		return vb.ValidateBasic()
	}
	return nil
}

func safeMutate(e *mutEnv, m proto.Message, p, k int) (kind, desc string) {
	defer func() {
		if r := recover(); r != nil {
			kind, desc = "", ""
		}
	}()
	return applyMutation(e, m, p, k)
}

// declaredSigner returns the account the message names as its signer (nil, false when it names nobody we know or
// the field does not parse).
func (w *world) declaredSigner(m sdk.Msg) (a *sim.Account, parses bool) {
	defer func() {
		if r := recover(); r != nil {
			a, parses = nil, false
		}
	}()
	signers, _, err := w.ch.App.AppCodec().GetMsgV1Signers(m)
	if err != nil || len(signers) != 1 {
		return nil, false
	}
	return w.acct(sdk.AccAddress(signers[0]).String()), true
}

func (w *world) declaredAddr(m sdk.Msg) (addr string, parses bool) {
	defer func() {
		if r := recover(); r != nil {
			addr, parses = "", false
		}
	}()
	signers, _, err := w.ch.App.AppCodec().GetMsgV1Signers(m)
	if err != nil || len(signers) != 1 {
		return "", false
	}
	return sdk.AccAddress(signers[0]).String(), true
}

// sign builds a SIGN_MODE_DIRECT transaction. anteOK says whether the ante handler is expected to let it through
// (only then the signer's sequence advances).
func (w *world) sign(signer *sim.Account, anteOK bool, msgs ...sdk.Msg) (bz []byte, err error) {
	defer func() {
		if r := recover(); r != nil {
			bz, err = nil, fmt.Errorf("tx build panic: %v", r)
		}
	}()
	ch := w.ch
	txCfg := ch.App.GetTxConfig()
	b := txCfg.NewTxBuilder()
	if err := b.SetMsgs(msgs...); err != nil {
		return nil, err
	}
	b.SetGasLimit(80_000_000)
	b.SetFeeAmount(uband(2500))
	seq := signer.Seq
	sig := signing.SignatureV2{PubKey: signer.Priv.PubKey(), Data: &signing.SingleSignatureData{SignMode: signing.SignMode_SIGN_MODE_DIRECT}, Sequence: seq}
	if err := b.SetSignatures(sig); err != nil {
		return nil, err
	}
	sd := authsign.SignerData{Address: signer.Addr.String(), ChainID: ch.Cfg.ChainID, AccountNumber: signer.Num, Sequence: seq, PubKey: signer.Priv.PubKey()}
	sb, err := authsign.GetSignBytesAdapter(context.Background(), txCfg.SignModeHandler(), signing.SignMode_SIGN_MODE_DIRECT, sd, b.GetTx())
	if err != nil {
		return nil, err
	}
	s, err := signer.Priv.Sign(sb)
	if err != nil {
		return nil, err
	}
	sig.Data.(*signing.SingleSignatureData).Signature = s
	if err := b.SetSignatures(sig); err != nil {
		return nil, err
	}
	out, err := txCfg.TxEncoder()(b.GetTx())
	if err != nil {
		return nil, err
	}
	if anteOK {
		// a transaction the node cannot decode (unregistered Any, malformed signer field ...) never reaches the ante handler
		if _, derr := txCfg.TxDecoder()(out); derr == nil {
			signer.Seq++
		}
	}
	return out, nil
}

func moduleOfURL(url string) string {
	seg := strings.Split(strings.TrimPrefix(url, "/"), ".")
	if len(seg) >= 2 && seg[0] == "band" {
		return seg[1]
	}
	return ""
}

// ---- crash journal ---------------------------------------------------------------------------------------------
// A Rust panic inside the owasm VM aborts the whole process (it cannot be recovered in Go), so a case is written to a
// journal file before it is executed; a worker that dies leaves the file behind and the driver reports it as the replay
// (stage option crash_is_violation, as for C19).

const sigProcessDied = "C02/node-process-died"

func journal(c advCase) string {
	if os.Getenv("VERIF_C02ADV_NOJOURNAL") != "" {
		return ""
	}
	d := os.Getenv("VERIF_REPLAY_OUT")
	if d == "" {
		d = "/verif/replays"
	}
	shard := os.Getenv("VERIF_SHARD")
	if shard == "" {
		shard = "0"
	}
	p := filepath.Join(d, "C02", "journal-"+shard+".json")
	cj, err := json.Marshal(c)
	if err != nil {
		return ""
	}
	wrap := map[string]any{"property": "C02", "test": "TestC02Adversarial", "signature": sigProcessDied,
		"violation": "the node process died (abort / fatal error, not a recoverable panic) while executing a block of this history", "case": json.RawMessage(cj)}
	b, _ := json.MarshalIndent(wrap, "", " ")
	_ = os.MkdirAll(filepath.Dir(p), 0o755)
	if os.WriteFile(p, b, 0o644) != nil {
		return ""
	}
	return p
}

func runAdv(c advCase) *pbt.Verdict {
	v := &pbt.Verdict{}
	if jp := journal(c); jp != "" {
		defer os.Remove(jp)
	}
	if c.NVals < 2 || c.NVals > 4 || len(c.Cfg) < nCfg {
		v.Failf("harness", "malformed case")
		return v
	}
	w := &world{c: c, v: v, privs: map[uint64]map[string]tss.Scalar{}, dkgs: map[uint64]map[string]*dkgMember{}, props: map[uint64]int{}, propMsgs: map[uint64]sdk.Msg{}}
	cfg := w.buildConfig()
	ch, err := sim.New(cfg, 0)
	if err != nil {
		v.Failf("harness", "sim.New: %v", err)
		return v
	}
	defer func() {
		if !w.hung { // a chain whose FinalizeBlock never returned is still in use by that goroutine: leak it
			ch.Close()
		}
	}()
	w.ch, w.u, w.ghost = ch, ch.Users, sim.NewAccount("ghost")
	if !w.setup() {
		return v
	}
	okModules := map[string]bool{}
	mutKindsOK := map[string]bool{}
	endWork := map[string]bool{}
	for bi, blk := range c.Blocks {
		dt := time.Duration(blk.Dt) * time.Second
		w.beginBlock(dt)
		var txs [][]byte
		var metas []*txMeta
		addTx := func(signer *sim.Account, anteOK bool, meta *txMeta, msgs ...sdk.Msg) {
			bz, err := w.sign(signer, anteOK, msgs...)
			if err != nil {
				v.Count("tx_unbuildable", 1)
				return
			}
			txs = append(txs, bz)
			metas = append(metas, meta)
		}
		ops := blk.Txs
		if blk.Maint {
			var pre []advTx
			for _, url := range []string{"/band.tss.v1beta1.MsgSubmitSignature", "/band.bandtss.v1beta1.MsgActivate", "/band.tss.v1beta1.MsgSubmitDEs"} {
				pre = append(pre, advTx{T: typeIndex(url), B: true, S: []int{0, 1, 0}, maint: true})
			}
			ops = append(pre, ops...)
		}
		for _, t := range ops {
			if t.T < 0 || t.T >= len(msgTypes) {
				continue
			}
			mt := msgTypes[t.T]
			tmpl := w.safeTemplate(t.T, t)
			if len(tmpl) == 0 {
				v.Count("inapplicable/"+shortName(mt.url), 1)
				continue
			}
			for _, bt := range tmpl {
				if t.maint && bt.fallback {
					continue
				}
				msg := bt.msg
				meta := &txMeta{maint: t.maint, ti: t.T, url: sdk.MsgTypeURL(msg), gov: mt.gov, fallback: bt.fallback}
				for _, mu := range t.M {
					pm, ok := msg.(proto.Message)
					if !ok {
						break
					}
					var prev proto.Message
					if mt.gov {
						prev = cloneMsg(pm) // (gov-routed messages carry no Any)
					}
					kind, desc := safeMutate(w.env, pm, mu.P, mu.K)
					if desc == "" {
						continue
					}
					if mt.gov && prev != nil && w.inAvoidedRegion(msg) {
						msg = prev.(sdk.Msg)
						v.Count("avoided_known_region", 1)
						continue
					}
					if mt.gov && prev != nil && safeVB(msg) != nil && (mu.K/5)%8 != 0 {
						// parameter values the module's own validation refuses are outside the domain (1 in 8 is sent anyway)
						msg = prev.(sdk.Msg)
						v.Count("param_mutation_refused_by_validate", 1)
						continue
					}
					meta.mutated = true
					meta.kinds = append(meta.kinds, kind)
					meta.descs = append(meta.descs, desc)
				}
				meta.vbFail = safeVB(msg) != nil
				if mt.gov {
					prop, perr := govv1.NewMsgSubmitProposal([]sdk.Msg{msg}, uband(10), ch.Vals[0].Addr.String(), "", "t", "s", false)
					if perr != nil {
						v.Count("tx_unbuildable", 1)
						continue
					}
					pid, perr := ch.App.GovKeeper.ProposalID.Peek(w.ctx)
					if perr != nil {
						pid = 1
					}
					pid += w.propsInBlock
					if auth, parses := w.declaredAddr(msg); !meta.vbFail && parses && auth == sim.GovAuthority() {
						w.propsInBlock++ // (a submission gov is going to refuse does not consume a proposal id)
					}
					meta.pid = pid
					meta.msg = msg
					// gov runs ValidateBasic of the inner message when the proposal is submitted (in the msg server, after ante)
					addTx(ch.Vals[0], true, meta, prop)
					for _, val := range ch.Vals {
						addTx(val, true, &txMeta{ti: -1, pid: pid}, govv1.NewMsgVote(val.Addr, pid, govv1.OptionYes, ""))
					}
					continue
				}
				signer := bt.signer
				declared, parses := w.declaredSigner(msg)
				if parses && declared != nil {
					signer = declared // a mutated signer field naming another account we control: that account signs
				}
				anteOK := !meta.vbFail && parses && declared != nil
				if t.W {
					meta.wrong = true
					anteOK = false
					signer = pickOf([]*sim.Account{w.u[uOut], w.ghost, w.u[9]}, t.sel(2))
					if declared != nil && signer.Addr.Equals(declared.Addr) {
						signer = w.u[9]
					}
				}
				if signer == nil {
					signer = w.u[uOut]
				}
				addTx(signer, anteOK, meta, msg)
			}
		}
		height := ch.Height + 1
		res, err, hung := w.blockWithWatchdog(txs, dt)
		if hung {
			w.hung = true
			sig, what := w.classifyHang()
			v.Failf(sig, "history block %d (height %d, dt %ds): FinalizeBlock did not return within %s (the node cannot produce the block); %s; messages of the block: %s",
				bi, height, blk.Dt, hangLimit, what, strings.Join(msgList(metas), ", "))
			return v
		}
		if err != nil {
			var list []string
			for _, m := range metas {
				if m.ti < 0 {
					continue
				}
				list = append(list, shortName(m.url)+"{"+strings.Join(m.descs, ";")+"}")
			}
			sig, what := w.classifyFailure(err)
			if os.Getenv("VERIF_C02ADV_TRACE") != "" {
				fmt.Printf("TRACE block %d: %v\n%s\n", bi, err, traceFinalize(ch, txs, dt))
			}
			v.Failf(sig, "history block %d (height %d, dt %ds) could not be finalized: %v; %s; messages of the block: %s", bi, ch.Height+1, blk.Dt, err, what, strings.Join(list, ", "))
			return v
		}
		// results
		for i, tr := range res.Resp.TxResults {
			m := metas[i]
			if m.ti < 0 {
				if tr.Code != 0 {
					v.Count("gov_vote_failed", 1)
					if os.Getenv("VERIF_C02ADV_DEBUG") != "" {
						fmt.Printf("VOTE-FAIL %s\n", tr.Log)
					}
				}
				continue
			}
			name := shortName(msgTypes[m.ti].url)
			ok := tr.Code == 0
			if m.maint {
				if ok {
					okModules[moduleOfURL(m.url)] = true
					v.Count("maint_ok", 1)
				} else {
					v.Count("maint_fail", 1)
				}
				continue
			}
			switch {
			case m.wrong && ok:
				v.Count("wrong_signer_accepted/"+name, 1) // (never expected: the ante handler verifies the signature)
			case m.wrong:
				v.Count("wrong_signer_refused", 1)
			case ok && !m.mutated:
				v.Count("tmpl_ok/"+name, 1)
			case !ok && !m.mutated && m.fallback:
				v.Count("tmpl_no_target/"+name, 1)
			case !ok && !m.mutated:
				v.Count("tmpl_fail/"+name, 1)
				if os.Getenv("VERIF_C02ADV_DEBUG") != "" {
					fmt.Printf("TMPL-FAIL %s: %s\n", name, tr.Log)
				}
			case ok:
				v.Count("mut_ok/"+name, 1)
			default:
				v.Count("mut_fail/"+name, 1)
			}
			if m.gov {
				if ok {
					w.props[m.pid] = m.ti
					w.propMsgs[m.pid] = m.msg
				}
				continue // the module message itself runs in gov's end blocker
			}
			if ok {
				okModules[moduleOfURL(m.url)] = true
				for _, k := range m.kinds {
					mutKindsOK[k] = true
				}
			}
			for _, k := range m.kinds {
				v.Class("mut:" + k)
			}
		}
		for _, e := range res.Resp.Events {
			switch e.Type {
			case "active_proposal":
				var pid uint64
				fmt.Sscan(sim.Attr(e, "proposal_id"), &pid)
				if ti, found := w.props[pid]; found {
					name := shortName(msgTypes[ti].url)
					if sim.Attr(e, "proposal_result") == "proposal_passed" {
						v.Count("gov_exec_ok/"+name, 1)
						okModules[msgTypes[ti].module] = true
					} else {
						v.Count("gov_exec_fail/"+name, 1)
						if os.Getenv("VERIF_C02ADV_DEBUG") != "" {
							fmt.Printf("GOV-FAIL %s: %s %s\n", name, sim.Attr(e, "proposal_result"), sim.Attr(e, "proposal_log"))
						}
					}
					delete(w.props, pid)
					delete(w.propMsgs, pid)
				}
			}
			if wk, ok := endBlockWork[e.Type]; ok {
				endWork[wk] = true
			}
		}
	}
	mods := make([]string, 0, len(okModules))
	for m := range okModules {
		if m != "" {
			mods = append(mods, m)
		}
	}
	sort.Strings(mods)
	for _, m := range mods {
		v.Class("ok:" + m)
	}
	for _, k := range sortedBoolKeys(mutKindsOK) {
		v.Class("mut-accepted:" + k)
	}
	for _, k := range sortedBoolKeys(endWork) {
		v.Class("endblock:" + k)
	}
	v.Class(fmt.Sprintf("modules-ok=%d", len(mods)))
	v.Count("blocks", int64(len(c.Blocks)))
	v.NonTrivial = len(mods) >= 4
	return v
}

var endBlockWork = map[string]string{
	"resolve": "oracle-resolve", "signing_success": "tss-aggregate", "signing_failed": "tss-fail", "request_signature": "tss-assign",
	"produce_packet_success": "tunnel-packet", "produce_packet_fail": "tunnel-packet-fail", "update_price": "feeds-price",
	"group_transition_success": "bandtss-transition", "group_transition_failed": "bandtss-transition-failed", "inactive_status": "bandtss-penalty", "deactivate": "oracle-deactivate",
	"round1_success": "tss-dkg-round1", "round2_success": "tss-dkg-round2", "round3_success": "tss-dkg-done", "round3_failed": "tss-dkg-failed", "expired_group": "tss-dkg-expired",
	"complain_success": "tss-complain-upheld", "complain_failed": "tss-complain-rejected", "deactivate_tunnel": "tunnel-deactivated", "active_proposal": "gov-proposal-ended",
}

func sortedPids(m map[uint64]sdk.Msg) []uint64 {
	ks := make([]uint64, 0, len(m))
	for k := range m {
		ks = append(ks, k)
	}
	sort.Slice(ks, func(i, j int) bool { return ks[i] < ks[j] })
	return ks
}

func sortedBoolKeys(m map[string]bool) []string {
	ks := make([]string, 0, len(m))
	for k := range m {
		ks = append(ks, k)
	}
	sort.Strings(ks)
	return ks
}

// Findings of this stage on the unchanged tree. Each distinct root cause has its own signature so that the search can
// go on behind it: VERIF_C02ADV_AVOID=<signature,...> keeps the histories out of the corresponding region.
const (
	// bandtss FeePerSigner / tunnel BasePacketFee amounts near 2^256 (accepted by Params.Validate) overflow math.Int in
	// GetSigningFee / HasEnoughFundToCreatePacket, which the tunnel end blocker calls outside its recovering cache context
	sigFeeOverflow = "C02/tunnel-endblock-fee-overflow"
	// oracle SamplingTryCount has no upper bound in Params.Validate; MsgRequestData repeats the validator sampling that
	// many times without charging gas for it, so a large value makes FinalizeBlock run for hours to forever
	sigSamplingHang = "C02/sampling-try-count-hang"
	// oracle MaxCalldataSize / MaxReportDataSize have no upper bound in Params.Validate; the larger of the two is the "span
	// size" the owasm VM allocates (Vec::with_capacity) whenever a script reads its calldata or a report: a value >= 2^63
	// (or beyond the machine's memory) is a Rust panic / allocation failure across the FFI boundary, which ABORTS the node
	// process (SIGABRT) inside a MsgRequestData or inside the oracle end blocker. Not recoverable: the stage can only
	// journal the case; the region is entered only when VERIF_C02ADV_ALLOW_ABORT is set or the finding is not avoided.
	sigSpanAbort = "C02/owasm-span-size-abort"
)

const spanSizeLimit = 1 << 31

func avoided(sig string) bool { return avoid[sig] || pbt.IsExcluded("C02", sig) }

func maxIntBits(m any) int {
	var ls []leaf
	collectLeaves(reflect.ValueOf(m), "", &ls, 0)
	mx := 0
	for _, l := range ls {
		if l.kind == "bigint" {
			if i, ok := l.v.Interface().(math.Int); ok && !i.IsNil() && i.BigInt().BitLen() > mx {
				mx = i.BigInt().BitLen()
			}
		}
	}
	return mx
}

// inAvoidedRegion: the (mutated) authority-only message would take the chain into the region of a reported finding.
func (w *world) inAvoidedRegion(m sdk.Msg) bool {
	if mm, ok := m.(*oracletypes.MsgUpdateParams); ok && avoided(sigSamplingHang) && mm.Params.SamplingTryCount > 1000 && int64(mm.Params.SamplingTryCount) > 0 {
		return true
	}
	if mm, ok := m.(*oracletypes.MsgUpdateParams); ok && avoided(sigSpanAbort) && (mm.Params.MaxCalldataSize > spanSizeLimit || mm.Params.MaxReportDataSize > spanSizeLimit) {
		return true
	}
	if avoided(sigFeeOverflow) {
		switch mm := m.(type) {
		case *bandtsstypes.MsgUpdateParams:
			if maxIntBits(&mm.Params) > 128 {
				return true
			}
		case *tunneltypes.MsgUpdateParams:
			if maxIntBits(&mm.Params) > 128 {
				return true
			}
		}
	}
	return false
}

var hangLimit = func() time.Duration {
	if s, err := time.ParseDuration(os.Getenv("VERIF_C02ADV_HANG_LIMIT")); err == nil && s > 0 {
		return s
	}
	return 60 * time.Second
}()

// blockWithWatchdog executes the block; a FinalizeBlock that does not return within hangLimit (thousands of times the
// normal duration of a block) is reported as a hang. The wall clock is used for nothing else.
func (w *world) blockWithWatchdog(txs [][]byte, dt time.Duration) (res *sim.BlockResult, err error, hung bool) {
	type out struct {
		res *sim.BlockResult
		err error
	}
	done := make(chan out, 1)
	go func() {
		r, e := w.ch.Block(txs, dt)
		done <- out{r, e}
	}()
	select {
	case o := <-done:
		return o.res, o.err, false
	case <-time.After(hangLimit):
		return nil, nil, true
	}
}

func msgList(metas []*txMeta) []string {
	var list []string
	for _, m := range metas {
		if m.ti < 0 {
			continue
		}
		list = append(list, shortName(m.url)+"{"+strings.Join(m.descs, ";")+"}")
	}
	return list
}

// samplingTryLimit: a try count above this makes every MsgRequestData loop for seconds to forever
const samplingTryLimit = 1_000_000

func (w *world) classifyHang() (sig, what string) {
	// (the committed state must not be read here: the application is still executing the block)
	if w.samplingTry > samplingTryLimit || int64(w.samplingTry) < 0 {
		return sigSamplingHang, fmt.Sprintf("oracle SamplingTryCount=%d", w.samplingTry)
	}
	for _, pid := range sortedPids(w.propMsgs) {
		if mm, ok := w.propMsgs[pid].(*oracletypes.MsgUpdateParams); ok && mm.Params.SamplingTryCount > samplingTryLimit {
			return sigSamplingHang, fmt.Sprintf("proposal %d sets oracle SamplingTryCount=%d", pid, mm.Params.SamplingTryCount)
		}
	}
	return "C02/finalize-hang", "unclassified"
}

// classifyFailure attributes a block that could not be finalized to a known root cause, else C02/finalize-error.
func (w *world) classifyFailure(err error) (sig, what string) {
	ctx := w.ch.Ctx()
	if strings.Contains(err.Error(), "integer overflow") {
		bp := w.ch.App.BandtssKeeper.GetParams(ctx)
		tp := w.ch.App.TunnelKeeper.GetParams(ctx)
		if maxIntBits(&bp) > 200 || maxIntBits(&tp) > 200 {
			return sigFeeOverflow, fmt.Sprintf("bandtss FeePerSigner=%s tunnel BasePacketFee=%s", bp.FeePerSigner, tp.BasePacketFee)
		}
		// or a parameter change executed by gov's end blocker in the very block that failed
		for _, pid := range sortedPids(w.propMsgs) {
			switch mm := w.propMsgs[pid].(type) {
			case *bandtsstypes.MsgUpdateParams:
				if maxIntBits(&mm.Params) > 200 {
					return sigFeeOverflow, fmt.Sprintf("proposal %d sets bandtss FeePerSigner=%s", pid, mm.Params.FeePerSigner)
				}
			case *tunneltypes.MsgUpdateParams:
				if maxIntBits(&mm.Params) > 200 {
					return sigFeeOverflow, fmt.Sprintf("proposal %d sets tunnel BasePacketFee=%s MinDeposit=%s", pid, mm.Params.BasePacketFee, mm.Params.MinDeposit)
				}
			}
		}
	}
	return "C02/finalize-error", "unclassified"
}

var _ = bytes.Equal
var _ abci.Event

func TestC02Adversarial(t *testing.T) { pbt.Check(t, "C02", genAdv, runAdv) }

// TestC02AdvMsgList cross-checks the covered message list with the application's interface registry.
func TestC02AdvMsgList(t *testing.T) {
	ch, err := sim.New(sim.Config{NumAccounts: 2, Validators: []sim.ValSpec{{Tokens: 10_000_000}}}, 0)
	if err != nil {
		t.Fatal(err)
	}
	defer ch.Close()
	covered := map[string]bool{}
	for _, m := range msgTypes {
		covered[m.url] = true
	}
	n := 0
	for _, u := range ch.App.InterfaceRegistry().ListImplementations("cosmos.base.v1beta1.Msg") {
		if !strings.HasPrefix(u, "/band.") {
			continue
		}
		n++
		if !covered[u] {
			t.Errorf("message type %s is registered but not covered", u)
		}
		delete(covered, u)
	}
	for u := range covered {
		t.Errorf("message type %s is covered but not registered", u)
	}
	t.Logf("%d custom-module message types registered, %d covered", n, len(msgTypes))
}
