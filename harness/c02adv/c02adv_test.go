// Package c02adv is the adversarial generator stage of property C02 ("Block execution is total and deterministic"):
// histories whose transactions are adversarial variants of EVERY message type of the custom modules
// (oracle, tss, bandtss, feeds, tunnel, restake, globalfee), authority-only messages through real governance
// proposals, block time steps from 0 to more than a day. The oracle (no FinalizeBlock error / panic, replicas
// agree) lives in chainsim's replica mode; this stage only has to produce the histories and attribute a failed
// block.
package c02adv

import (
	"bytes"
	"context"
	"encoding/json"
	"fmt"
	"os"
	"path/filepath"
	"reflect"
	"sort"
	"strings"
	"testing"
	"time"

	abci "github.com/cometbft/cometbft/abci/types"
	"pgregory.net/rapid"

	sdk "github.com/cosmos/cosmos-sdk/types"
	"github.com/cosmos/cosmos-sdk/types/tx/signing"
	authsign "github.com/cosmos/cosmos-sdk/x/auth/signing"
	"github.com/cosmos/gogoproto/proto"

	"cosmossdk.io/math"

	"github.com/bandprotocol/chain/v3/pkg/tss"
	bandtsstypes "github.com/bandprotocol/chain/v3/x/bandtss/types"
	oracletypes "github.com/bandprotocol/chain/v3/x/oracle/types"
	tunneltypes "github.com/bandprotocol/chain/v3/x/tunnel/types"

	"verif/harness/gen"
	"verif/harness/pbt"
	"verif/harness/sim"
)

// ---- case --------------------------------------------------------------------------------------------------

type advMut struct {
	P int `json:"p"` // which field (index mod number of leaves of the message)
	K int `json:"k"` // which adversarial value of the field's kind
}

// advSub is a further message of the same transaction (or of the same governance proposal).
type advSub struct {
	T int      `json:"t"`
	S []int    `json:"s,omitempty"`
	M []advMut `json:"m,omitempty"`
}

type advTx struct {
	T int      `json:"t"`           // index into msgTypes
	S []int    `json:"s,omitempty"` // late-bound selectors of the template
	M []advMut `json:"m,omitempty"` // mutations (empty = the valid template)
	W bool     `json:"w,omitempty"` // signed by somebody else than the message names
	B bool     `json:"b,omitempty"` // burst: one tx per eligible member / validator (DKG rounds, signatures, reports, prices)
	// X: further messages in the SAME transaction (multi-message tx, all declared signers sign; executed atomically: a
	// failing later message rolls the earlier ones back). For an authority-only first message without E the messages
	// form ONE governance proposal (executed atomically by gov's end blocker).
	X []advSub `json:"x,omitempty"`
	// E: authz wrapping of the message(s): 0 none, 1 MsgExec by the agent (holder of the grants), 2 MsgExec by an account
	// nobody granted anything, 3 nested MsgExec (agent2 executes the agent's MsgExec), 4 MsgExec by the message's own signer
	E int `json:"e,omitempty"`
	// G: 1 = the op is a MsgGrant (generic authorization for message type T, granter = the template's signer, grantee =
	// agent; M mutates the MsgGrant), 2 = MsgRevoke of the same
	G int `json:"g,omitempty"`

	maint bool // (not part of the case) inserted by a block's Maint flag
}

func (t advTx) sel(i int) int {
	if i < len(t.S) && t.S[i] >= 0 {
		return t.S[i]
	}
	return 0
}

func (x advSub) asTx() advTx { return advTx{T: x.T, S: x.S, M: x.M} }

type advBlock struct {
	Dt    int     `json:"dt"`
	Maint bool    `json:"maint,omitempty"` // diligent members: before the generated txs every assigned member signs, inactive members re-activate, nonce queues are topped up
	Txs   []advTx `json:"txs,omitempty"`
}

type advCase struct {
	NVals           int        `json:"nvals"`
	LastInactive    bool       `json:"last_inactive,omitempty"`    // the last validator is not oracle-activated in set-up
	SecondGroup     bool       `json:"second_group,omitempty"`     // a second ACTIVE genesis group (target of forced transitions)
	SetupTransition bool       `json:"setup_transition,omitempty"` // a group transition (DKG) is proposed in the first block
	Grants          bool       `json:"grants,omitempty"`           // set-up: every acting account grants the agent generic authorizations for all band Msg types
	Cfg             []int      `json:"cfg"`                        // parameter presets (see buildConfig)
	Blocks          []advBlock `json:"blocks"`
}

const nCfg = 18

// regions the histories are kept away from on request (empty by default), VERIF_C02ADV_AVOID=a,b
var avoid = func() map[string]bool {
	m := map[string]bool{}
	for _, s := range strings.Split(os.Getenv("VERIF_C02ADV_AVOID"), ",") {
		if s = strings.TrimSpace(s); s != "" {
			m[s] = true
		}
	}
	return m
}()

func genAdv(rt *rapid.T) advCase {
	c := advCase{NVals: gen.Range(rt, "nvals", 2, 4), LastInactive: gen.Chance(rt, "lastinactive", 1, 3),
		SecondGroup: gen.Chance(rt, "group2", 1, 2), SetupTransition: gen.Chance(rt, "transition", 1, 2), Grants: gen.Chance(rt, "grants", 2, 3)}
	for i := 0; i < nCfg; i++ {
		c.Cfg = append(c.Cfg, gen.Uniform(rt, "cfg", 60))
	}
	nb := rapid.IntRange(10, 40).Draw(rt, "nblocks")
	diligent := gen.Chance(rt, "diligent", 1, 2)
	for b := 0; b < nb; b++ {
		blk := advBlock{Dt: gen.OneOf(rt, "dt", 0, 1, 1, 1, 3, 3, 60, 100000), Maint: diligent && gen.Chance(rt, "maint", 1, 2)}
		ntx := gen.Range(rt, "ntx", 0, 12)
		for i := 0; i < ntx; i++ {
			t := advTx{T: gen.Uniform(rt, "type", len(msgTypes)), B: gen.Chance(rt, "burst", 1, 2)}
			for j := 0; j < 3; j++ {
				t.S = append(t.S, gen.Uniform(rt, "sel", 1<<12))
			}
			if gen.Chance(rt, "mutate", 1, 2) {
				nm := gen.Pick(rt, "nmut", 6, 3, 1) + 1
				for j := 0; j < nm; j++ {
					t.M = append(t.M, advMut{P: gen.Uniform(rt, "path", 1<<10), K: gen.Uniform(rt, "kind", 1<<12)})
				}
			}
			t.W = gen.Chance(rt, "wrongsigner", 1, 40)
			genMuts := func() []advMut {
				var ms []advMut
				if gen.Chance(rt, "submutate", 1, 3) {
					for j := gen.Pick(rt, "subnmut", 6, 3) + 1; j > 0; j-- {
						ms = append(ms, advMut{P: gen.Uniform(rt, "path", 1<<10), K: gen.Uniform(rt, "kind", 1<<12)})
					}
				}
				return ms
			}
			switch gen.Pick(rt, "shape", 60, 14, 12, 6, 5, 3) {
			case 1: // multi-message tx / multi-message proposal: 1-3 further messages, preferably of other modules
				mod := moduleIndex(msgTypes[t.T].module)
				for j := gen.Range(rt, "nsub", 1, 3); j > 0; j-- {
					var sub advSub
					switch {
					case msgTypes[t.T].gov && !gen.Chance(rt, "propforeign", 1, 8):
						sub.T = govTypes[gen.Uniform(rt, "subgov", len(govTypes))]
					case gen.Chance(rt, "samemodule", 1, 4):
						sub.T = plainTypes[gen.Uniform(rt, "subtype", len(plainTypes))]
					default:
						mod = (mod + 1 + gen.Uniform(rt, "submod", len(moduleNames)-1)) % len(moduleNames)
						ts := typesOfModule[mod]
						if !msgTypes[t.T].gov && !gen.Chance(rt, "authorityintx", 1, 12) {
							// (an authority-only message in a plain tx cannot be signed: the tx is refused in the ante handler)
							if ts = plainTypesOfModule[mod]; len(ts) == 0 {
								ts = plainTypes
							}
						}
						sub.T = ts[gen.Uniform(rt, "subtype", len(ts))]
					}
					for k := 0; k < 3; k++ {
						sub.S = append(sub.S, gen.Uniform(rt, "sel", 1<<12))
					}
					sub.M = genMuts()
					t.X = append(t.X, sub)
				}
				t.B = false
			case 2: // through authz
				t.E = gen.OneOf(rt, "exec", 1, 1, 1, 1, 2, 3, 3, 4)
			case 3: // several messages in one MsgExec
				t.E = gen.OneOf(rt, "exec", 1, 1, 1, 2, 3, 4)
				for j := gen.Range(rt, "nsub", 1, 2); j > 0; j-- {
					sub := advSub{T: gen.Uniform(rt, "subtype", len(msgTypes))}
					for k := 0; k < 3; k++ {
						sub.S = append(sub.S, gen.Uniform(rt, "sel", 1<<12))
					}
					sub.M = genMuts()
					t.X = append(t.X, sub)
				}
				t.B = false
			case 4:
				t.G = 1
			case 5:
				t.G = 2
			}
			blk.Txs = append(blk.Txs, t)
		}
		c.Blocks = append(c.Blocks, blk)
	}
	return c
}

// ---- execution -----------------------------------------------------------------------------------------------

// comp is one message of a transaction: built from the template of its type, then mutated.
type comp struct {
	ti       int
	url      string // actual type of the message
	msg      sdk.Msg
	signer   *sim.Account // the signer the template intended
	mutated  bool
	kinds    []string // kinds of the mutated fields
	descs    []string
	vbFail   bool
	fallback bool
}

func (c *comp) name() string { return shortName(msgTypes[c.ti].url) }

type txMeta struct {
	kind  string // single | maint | vote | multi | exec | prop | grant | revoke
	comps []*comp
	wrong bool
	pid   uint64 // prop, vote
	exec  int    // exec: the E of the op
	desc  string
}

func reflectParams(m proto.Message) reflect.Value {
	v := reflect.ValueOf(m)
	if v.Kind() == reflect.Ptr {
		v = v.Elem()
	}
	if v.Kind() != reflect.Struct {
		return reflect.Value{}
	}
	return v.FieldByName("Params")
}

// safeTemplate: templates do arithmetic on parameters the history itself may have pushed to extremes (coin amounts
// near 2^256 ...); a panic there means "no valid message can be built", never a harness failure.
func (w *world) safeTemplate(ti int, t advTx) (out []built) {
	defer func() {
		if r := recover(); r != nil {
			w.v.Count("template_panic", 1)
			if os.Getenv("VERIF_C02ADV_DEBUG") != "" {
				fmt.Printf("TEMPLATE-PANIC %s: %v\n", msgTypes[ti].url, r)
			}
			out = nil
		}
	}()
	return w.template(ti, t)
}

func safeVB(m sdk.Msg) (err error) {
	defer func() {
		if r := recover(); r != nil {
			err = fmt.Errorf("ValidateBasic panic: %v", r)
		}
	}()
	if vb, ok := m.(hasVB); ok {
		return vb.ValidateBasic()
	}
	return nil
}

func safeMutate(e *mutEnv, m proto.Message, p, k int) (kind, desc string) {
	defer func() {
		if r := recover(); r != nil {
			kind, desc = "", ""
		}
	}()
	return applyMutation(e, m, p, k)
}

// declaredSigner returns the account the message names as its signer (nil, false when it names nobody we know or
// the field does not parse).
func (w *world) declaredSigner(m sdk.Msg) (a *sim.Account, parses bool) {
	defer func() {
		if r := recover(); r != nil {
			a, parses = nil, false
		}
	}()
	signers, _, err := w.ch.App.AppCodec().GetMsgV1Signers(m)
	if err != nil || len(signers) != 1 {
		return nil, false
	}
	return w.acct(sdk.AccAddress(signers[0]).String()), true
}

func (w *world) declaredAddr(m sdk.Msg) (addr string, parses bool) {
	defer func() {
		if r := recover(); r != nil {
			addr, parses = "", false
		}
	}()
	signers, _, err := w.ch.App.AppCodec().GetMsgV1Signers(m)
	if err != nil || len(signers) != 1 {
		return "", false
	}
	return sdk.AccAddress(signers[0]).String(), true
}

// sign builds a SIGN_MODE_DIRECT transaction signed by all the given accounts (in the order the messages name them).
// anteOK says whether the ante handler is expected to let it through: only then the signers' sequences advance.
// Everything the ante handler can refuse is accounted for here: ValidateBasic (the caller), an undecodable tx, a signer
// set that differs from the declared one (the caller), a fee payer that cannot pay.
func (w *world) sign(signers []*sim.Account, anteOK bool, msgs ...sdk.Msg) (bz []byte, err error) {
	defer func() {
		if r := recover(); r != nil {
			bz, err = nil, fmt.Errorf("tx build panic: %v", r)
		}
	}()
	if len(signers) == 0 {
		return nil, fmt.Errorf("no signer")
	}
	ch := w.ch
	txCfg := ch.App.GetTxConfig()
	b := txCfg.NewTxBuilder()
	if err := b.SetMsgs(msgs...); err != nil {
		return nil, err
	}
	b.SetGasLimit(120_000_000)
	b.SetFeeAmount(uband(2500))
	sigs := make([]signing.SignatureV2, len(signers))
	for i, a := range signers {
		sigs[i] = signing.SignatureV2{PubKey: a.Priv.PubKey(), Data: &signing.SingleSignatureData{SignMode: signing.SignMode_SIGN_MODE_DIRECT}, Sequence: a.Seq}
	}
	if err := b.SetSignatures(sigs...); err != nil {
		return nil, err
	}
	for i, a := range signers {
		sd := authsign.SignerData{Address: a.Addr.String(), ChainID: ch.Cfg.ChainID, AccountNumber: a.Num, Sequence: a.Seq, PubKey: a.Priv.PubKey()}
		sb, err := authsign.GetSignBytesAdapter(context.Background(), txCfg.SignModeHandler(), signing.SignMode_SIGN_MODE_DIRECT, sd, b.GetTx())
		if err != nil {
			return nil, err
		}
		sg, err := a.Priv.Sign(sb)
		if err != nil {
			return nil, err
		}
		sigs[i].Data.(*signing.SingleSignatureData).Signature = sg
	}
	if err := b.SetSignatures(sigs...); err != nil {
		return nil, err
	}
	out, err := txCfg.TxEncoder()(b.GetTx())
	if err != nil {
		return nil, err
	}
	if anteOK {
		// a transaction the node cannot decode (unregistered Any, malformed signer field ...) never reaches the ante handler
		if _, derr := txCfg.TxDecoder()(out); derr != nil {
			anteOK = false
		}
	}
	if anteOK && ch.App.BankKeeper.SpendableCoins(w.ctx, signers[0].Addr).AmountOf("uband").LT(math.NewInt(1_000_000_000)) {
		anteOK = false // (never observed: every account starts with 10^12 uband) the fee payer may be unable to pay
		w.v.Count("fee_payer_poor", 1)
	}
	if anteOK {
		for _, a := range signers {
			a.Seq++
		}
	}
	return out, nil
}

func moduleOfURL(url string) string {
	seg := strings.Split(strings.TrimPrefix(url, "/"), ".")
	if len(seg) >= 2 && seg[0] == "band" {
		return seg[1]
	}
	return ""
}

// ---- crash journal ---------------------------------------------------------------------------------------------
// A Rust panic inside the owasm VM aborts the whole process (it cannot be recovered in Go), so a case is written to a
// journal file before it is executed; a worker that dies leaves the file behind and the driver reports it as the replay
// (stage option crash_is_violation, as for C19).

const sigProcessDied = "C02/node-process-died"

func journal(c advCase) string {
	if os.Getenv("VERIF_C02ADV_NOJOURNAL") != "" {
		return ""
	}
	d := os.Getenv("VERIF_REPLAY_OUT")
	if d == "" {
		d = "/verif/replays"
	}
	shard := os.Getenv("VERIF_SHARD")
	if shard == "" {
		shard = "0"
	}
	p := filepath.Join(d, "C02", "journal-"+shard+".json")
	cj, err := json.Marshal(c)
	if err != nil {
		return ""
	}
	wrap := map[string]any{"property": "C02", "test": "TestC02Adversarial", "signature": sigProcessDied,
		"violation": "the node process died (abort / fatal error, not a recoverable panic) while executing a block of this history", "case": json.RawMessage(cj)}
	b, _ := json.MarshalIndent(wrap, "", " ")
	_ = os.MkdirAll(filepath.Dir(p), 0o755)
	if os.WriteFile(p, b, 0o644) != nil {
		return ""
	}
	return p
}

func runAdv(c advCase) *pbt.Verdict {
	v := &pbt.Verdict{}
	if jp := journal(c); jp != "" {
		defer os.Remove(jp)
	}
	if c.NVals < 2 || c.NVals > 4 || len(c.Cfg) < nCfg {
		v.Failf("harness", "malformed case")
		return v
	}
	w := &world{c: c, v: v, privs: map[uint64]map[string]tss.Scalar{}, dkgs: map[uint64]map[string]*dkgMember{}, props: map[uint64][]*comp{}}
	cfg := w.buildConfig()
	ch, err := sim.New(cfg, 0)
	if err != nil {
		v.Failf("harness", "sim.New: %v", err)
		return v
	}
	defer func() {
		if !w.hung { // a chain whose FinalizeBlock never returned is still in use by that goroutine: leak it
			ch.Close()
		}
	}()
	w.ch, w.u, w.ghost = ch, ch.Users, sim.NewAccount("ghost")
	if !w.setup() {
		return v
	}
	okModules := map[string]bool{}
	mutKindsOK := map[string]bool{}
	endWork := map[string]bool{}
	shapes := map[string]bool{}
	debug := os.Getenv("VERIF_C02ADV_DEBUG") != ""
	for bi, blk := range c.Blocks {
		dt := time.Duration(blk.Dt) * time.Second
		w.beginBlock(dt)
		var txs [][]byte
		var metas []*txMeta
		add := func(signers []*sim.Account, anteOK bool, meta *txMeta, msgs ...sdk.Msg) {
			bz, err := w.sign(signers, anteOK, msgs...)
			if err != nil {
				v.Count("tx_unbuildable", 1)
				return
			}
			txs = append(txs, bz)
			metas = append(metas, meta)
		}
		ops := blk.Txs
		if blk.Maint {
			var pre []advTx
			for _, url := range []string{"/band.tss.v1beta1.MsgSubmitSignature", "/band.bandtss.v1beta1.MsgActivate", "/band.tss.v1beta1.MsgSubmitDEs"} {
				pre = append(pre, advTx{T: typeIndex(url), B: true, S: []int{0, 1, 0}, maint: true})
			}
			ops = append(pre, ops...)
		}
		for _, t := range ops {
			w.emit(t, add)
		}
		height := ch.Height + 1
		res, err, hung := w.blockWithWatchdog(txs, dt)
		if hung {
			w.hung = true
			sig, what := w.classifyHang()
			v.Failf(sig, "history block %d (height %d, dt %ds): FinalizeBlock did not return within %s (the node cannot produce the block); %s; transactions of the block: %s",
				bi, height, blk.Dt, hangLimit, what, strings.Join(msgList(metas), ", "))
			return v
		}
		if err != nil {
			sig, what := w.classifyFailure(err)
			if os.Getenv("VERIF_C02ADV_TRACE") != "" {
				fmt.Printf("TRACE block %d: %v\n%s\n", bi, err, traceFinalize(ch, txs, dt))
			}
			v.Failf(sig, "history block %d (height %d, dt %ds) could not be finalized: %v; %s; transactions of the block: %s", bi, ch.Height+1, blk.Dt, err, what, strings.Join(msgList(metas), ", "))
			return v
		}
		// results
		for i, tr := range res.Resp.TxResults {
			m := metas[i]
			ok := tr.Code == 0
			if strings.Contains(tr.Log, "account sequence mismatch") {
				// the harness mispredicted what the ante handler does with an earlier tx of the same signer: the history is not the
				// one that was meant, the case is inconclusive (never a violation)
				v.Failf("harness", "block %d tx %d (%s): %s", bi, i, describe(m), tr.Log)
				return v
			}
			if m.kind == "vote" {
				if !ok {
					v.Count("gov_vote_failed", 1)
				}
				continue
			}
			if m.kind == "maint" {
				if ok {
					okModules[moduleOfURL(m.comps[0].url)] = true
					v.Count("maint_ok", 1)
				} else {
					v.Count("maint_fail", 1)
				}
				continue
			}
			for _, c := range m.comps {
				for _, k := range c.kinds {
					v.Class("mut:" + k)
					if ok {
						mutKindsOK[k] = true
					}
				}
			}
			if m.wrong {
				if ok {
					v.Count("wrong_signer_accepted/"+m.comps[0].name(), 1) // (never expected: the ante handler verifies the signatures)
				} else {
					v.Count("wrong_signer_refused", 1)
				}
				continue
			}
			success := func() {
				for _, c := range m.comps {
					okModules[moduleOfURL(c.url)] = true
				}
			}
			switch m.kind {
			case "single", "prop":
				if m.kind == "prop" && len(m.comps) > 1 {
					shapes["gov-multi-msg-proposal"] = true
					if ok {
						v.Count("gov_multi_submitted", 1)
						w.props[m.pid] = m.comps
					} else {
						v.Count("gov_multi_submit_refused", 1)
					}
					break
				}
				c := m.comps[0]
				name := c.name()
				switch {
				case ok && !c.mutated:
					v.Count("tmpl_ok/"+name, 1)
				case !ok && !c.mutated && c.fallback:
					v.Count("tmpl_no_target/"+name, 1)
				case !ok && !c.mutated:
					v.Count("tmpl_fail/"+name, 1)
					if debug {
						fmt.Printf("TMPL-FAIL %s: %s\n", name, tr.Log)
					}
				case ok:
					v.Count("mut_ok/"+name, 1)
				default:
					v.Count("mut_fail/"+name, 1)
				}
				if m.kind == "prop" {
					if ok {
						w.props[m.pid] = m.comps // the module message itself runs in gov's end blocker
					}
				} else if ok {
					success()
				}
			case "multi":
				shapes["multi-msg-tx"] = true
				idx := failedIndex(tr.Log)
				switch {
				case ok:
					shapes["multi-msg-tx-ok"] = true
					v.Count("multi_ok", 1)
					for _, c := range m.comps {
						v.Count("multi_ok/"+c.name(), 1)
					}
					success()
				case idx < 0:
					v.Count("multi_refused_in_ante", 1)
					if debug {
						fmt.Printf("MULTI-ANTE %s: %s\n", describe(m), tr.Log)
					}
				default:
					if idx >= 1 {
						shapes["multi-msg-tx-rolled-back"] = true // earlier messages had executed
						v.Count("multi_rolled_back", 1)
					} else {
						v.Count("multi_failed_at_first", 1)
					}
					if idx < len(m.comps) {
						v.Count("multi_fail_at/"+m.comps[idx].name(), 1)
					}
					if debug {
						fmt.Printf("MULTI-FAIL %s: %s\n", describe(m), tr.Log)
					}
				}
			case "exec":
				shape := map[int]string{1: "authz-exec", 2: "authz-exec-without-grant", 3: "authz-exec-nested", 4: "authz-exec-by-signer"}[m.exec]
				authority := false
				for _, c := range m.comps {
					if msgTypes[c.ti].gov {
						authority = true
					}
				}
				if authority {
					shape += "-authority-msg"
				}
				if len(m.comps) > 1 {
					shape += "-multi"
				}
				switch {
				case ok:
					shapes[shape+"-ok"] = true
					shapes["authz-exec-ok"] = true
					v.Count("exec_ok", 1)
					for _, c := range m.comps {
						v.Count("exec_ok/"+c.name(), 1)
					}
					success()
				case strings.Contains(tr.Log, "authorization not found"):
					shapes[shape+"-refused"] = true
					shapes["authz-exec-refused"] = true
					v.Count("exec_refused", 1)
				case failedIndex(tr.Log) < 0:
					v.Count("exec_refused_in_ante", 1)
				default:
					shapes[shape+"-failed"] = true
					shapes["authz-exec-failed"] = true // authorised, but a message failed: everything rolled back
					v.Count("exec_failed", 1)
					for _, c := range m.comps {
						v.Count("exec_failed/"+c.name(), 1)
					}
					if debug {
						fmt.Printf("EXEC-FAIL %s: %s\n", describe(m), tr.Log)
					}
				}
			case "grant", "revoke":
				shapes["authz-"+m.kind] = true
				if ok {
					v.Count("authz_"+m.kind+"_ok", 1)
				} else {
					v.Count("authz_"+m.kind+"_fail", 1)
					if debug && !m.comps[0].mutated {
						fmt.Printf("GRANT-FAIL %s: %s\n", describe(m), tr.Log)
					}
				}
			}
		}
		for _, e := range res.Resp.Events {
			if e.Type == "active_proposal" {
				var pid uint64
				fmt.Sscan(sim.Attr(e, "proposal_id"), &pid)
				if cs, found := w.props[pid]; found {
					passed := sim.Attr(e, "proposal_result") == "proposal_passed"
					if len(cs) == 1 {
						name := cs[0].name()
						if passed {
							v.Count("gov_exec_ok/"+name, 1)
						} else {
							v.Count("gov_exec_fail/"+name, 1)
							if debug {
								fmt.Printf("GOV-FAIL %s: %s %s\n", name, sim.Attr(e, "proposal_result"), sim.Attr(e, "proposal_log"))
							}
						}
					} else {
						switch mm := rePropMsg.FindStringSubmatch(sim.Attr(e, "proposal_log")); {
						case passed:
							shapes["gov-multi-msg-proposal-passed"] = true
							v.Count("gov_multi_exec_ok", 1)
						case mm != nil && mm[1] != "0":
							shapes["gov-multi-msg-proposal-rolled-back"] = true // an earlier message of the proposal had executed
							v.Count("gov_multi_rolled_back", 1)
						default:
							v.Count("gov_multi_exec_fail", 1)
						}
					}
					if passed {
						for _, c := range cs {
							okModules[msgTypes[c.ti].module] = true
						}
					}
					delete(w.props, pid)
				}
			}
			if wk, ok := endBlockWork[e.Type]; ok {
				endWork[wk] = true
			}
		}
	}
	mods := make([]string, 0, len(okModules))
	for m := range okModules {
		if m != "" {
			mods = append(mods, m)
		}
	}
	sort.Strings(mods)
	for _, m := range mods {
		v.Class("ok:" + m)
	}
	for _, k := range sortedBoolKeys(mutKindsOK) {
		v.Class("mut-accepted:" + k)
	}
	for _, k := range sortedBoolKeys(endWork) {
		v.Class("endblock:" + k)
	}
	for _, k := range sortedBoolKeys(shapes) {
		v.Class(k)
	}
	v.Class(fmt.Sprintf("modules-ok=%d", len(mods)))
	v.Count("blocks", int64(len(c.Blocks)))
	v.NonTrivial = len(mods) >= 4
	return v
}

var endBlockWork = map[string]string{
	"resolve": "oracle-resolve", "signing_success": "tss-aggregate", "signing_failed": "tss-fail", "request_signature": "tss-assign",
	"produce_packet_success": "tunnel-packet", "produce_packet_fail": "tunnel-packet-fail", "update_price": "feeds-price",
	"group_transition_success": "bandtss-transition", "group_transition_failed": "bandtss-transition-failed", "inactive_status": "bandtss-penalty", "deactivate": "oracle-deactivate",
	"round1_success": "tss-dkg-round1", "round2_success": "tss-dkg-round2", "round3_success": "tss-dkg-done", "round3_failed": "tss-dkg-failed", "expired_group": "tss-dkg-expired",
	"complain_success": "tss-complain-upheld", "complain_failed": "tss-complain-rejected", "deactivate_tunnel": "tunnel-deactivated", "active_proposal": "gov-proposal-ended",
}

func sortedPids(m map[uint64][]*comp) []uint64 {
	ks := make([]uint64, 0, len(m))
	for k := range m {
		ks = append(ks, k)
	}
	sort.Slice(ks, func(i, j int) bool { return ks[i] < ks[j] })
	return ks
}

func sortedBoolKeys(m map[string]bool) []string {
	ks := make([]string, 0, len(m))
	for k := range m {
		ks = append(ks, k)
	}
	sort.Strings(ks)
	return ks
}

// Findings of this stage (all repaired by fix: commits in /repo by now). Each distinct root cause keeps its own signature
// so that a regression is named. Nothing is avoided by default: a region is left out only when its signature is listed
// in VERIF_C02ADV_AVOID=<signature,...> or recorded as an OPEN finding in known_findings.json (so that the search can go
// on behind a defect that is not repaired yet).
const (
	// bandtss FeePerSigner / tunnel BasePacketFee amounts near 2^256 (accepted by Params.Validate) overflow math.Int in
	// GetSigningFee / HasEnoughFundToCreatePacket, which the tunnel end blocker calls outside its recovering cache context
	sigFeeOverflow = "C02/tunnel-endblock-fee-overflow"
	// oracle SamplingTryCount has no upper bound in Params.Validate; MsgRequestData repeats the validator sampling that
	// many times without charging gas for it, so a large value makes FinalizeBlock run for hours to forever
	sigSamplingHang = "C02/sampling-try-count-hang"
	// oracle MaxCalldataSize / MaxReportDataSize have no upper bound in Params.Validate; the larger of the two is the "span
	// size" the owasm VM allocates (Vec::with_capacity) whenever a script reads its calldata or a report: a value >= 2^63
	// (or beyond the machine's memory) is a Rust panic / allocation failure across the FFI boundary, which ABORTS the node
	// process (SIGABRT) inside a MsgRequestData or inside the oracle end blocker. Not recoverable: the stage can only
	// journal the case before executing it.
	sigSpanAbort = "C02/owasm-span-size-abort"
)

const spanSizeLimit = 1 << 31

func avoided(sig string) bool { return avoid[sig] || pbt.IsExcluded("C02", sig) }

func maxIntBits(m any) int {
	var ls []leaf
	collectLeaves(reflect.ValueOf(m), "", &ls, 0)
	mx := 0
	for _, l := range ls {
		if l.kind == "bigint" {
			if i, ok := l.v.Interface().(math.Int); ok && !i.IsNil() && i.BigInt().BitLen() > mx {
				mx = i.BigInt().BitLen()
			}
		}
	}
	return mx
}

// inAvoidedRegion: the (mutated) authority-only message would take the chain into the region of a reported finding.
func (w *world) inAvoidedRegion(m sdk.Msg) bool {
	if mm, ok := m.(*oracletypes.MsgUpdateParams); ok && avoided(sigSamplingHang) && mm.Params.SamplingTryCount > 1000 && int64(mm.Params.SamplingTryCount) > 0 {
		return true
	}
	if mm, ok := m.(*oracletypes.MsgUpdateParams); ok && avoided(sigSpanAbort) && (mm.Params.MaxCalldataSize > spanSizeLimit || mm.Params.MaxReportDataSize > spanSizeLimit) {
		return true
	}
	if avoided(sigFeeOverflow) {
		switch mm := m.(type) {
		case *bandtsstypes.MsgUpdateParams:
			if maxIntBits(&mm.Params) > 128 {
				return true
			}
		case *tunneltypes.MsgUpdateParams:
			if maxIntBits(&mm.Params) > 128 {
				return true
			}
		}
	}
	return false
}

var hangLimit = func() time.Duration {
	if s, err := time.ParseDuration(os.Getenv("VERIF_C02ADV_HANG_LIMIT")); err == nil && s > 0 {
		return s
	}
	return 60 * time.Second
}()

// blockWithWatchdog executes the block; a FinalizeBlock that does not return within hangLimit (thousands of times the
// normal duration of a block) is reported as a hang. The wall clock is used for nothing else.
func (w *world) blockWithWatchdog(txs [][]byte, dt time.Duration) (res *sim.BlockResult, err error, hung bool) {
	type out struct {
		res *sim.BlockResult
		err error
	}
	done := make(chan out, 1)
	go func() {
		r, e := w.ch.Block(txs, dt)
		done <- out{r, e}
	}()
	select {
	case o := <-done:
		return o.res, o.err, false
	case <-time.After(hangLimit):
		return nil, nil, true
	}
}

func msgList(metas []*txMeta) []string {
	var list []string
	for _, m := range metas {
		if m.kind == "vote" {
			continue
		}
		list = append(list, describe(m))
	}
	return list
}

// samplingTryLimit: a try count above this makes every MsgRequestData loop for seconds to forever
const samplingTryLimit = 1_000_000

func (w *world) classifyHang() (sig, what string) {
	// (the committed state must not be read here: the application is still executing the block)
	if w.samplingTry > samplingTryLimit || int64(w.samplingTry) < 0 {
		return sigSamplingHang, fmt.Sprintf("oracle SamplingTryCount=%d", w.samplingTry)
	}
	for _, pid := range sortedPids(w.props) {
		for _, c := range w.props[pid] {
			if mm, ok := c.msg.(*oracletypes.MsgUpdateParams); ok && mm.Params.SamplingTryCount > samplingTryLimit {
				return sigSamplingHang, fmt.Sprintf("proposal %d sets oracle SamplingTryCount=%d", pid, mm.Params.SamplingTryCount)
			}
		}
	}
	return "C02/finalize-hang", "unclassified"
}

// classifyFailure attributes a block that could not be finalized to a known root cause, else C02/finalize-error.
func (w *world) classifyFailure(err error) (sig, what string) {
	ctx := w.ch.Ctx()
	if strings.Contains(err.Error(), "integer overflow") {
		bp := w.ch.App.BandtssKeeper.GetParams(ctx)
		tp := w.ch.App.TunnelKeeper.GetParams(ctx)
		if maxIntBits(&bp) > 200 || maxIntBits(&tp) > 200 {
			return sigFeeOverflow, fmt.Sprintf("bandtss FeePerSigner=%s tunnel BasePacketFee=%s", bp.FeePerSigner, tp.BasePacketFee)
		}
		// or a parameter change executed by gov's end blocker in the very block that failed
		for _, pid := range sortedPids(w.props) {
			for _, c := range w.props[pid] {
				switch mm := c.msg.(type) {
				case *bandtsstypes.MsgUpdateParams:
					if maxIntBits(&mm.Params) > 200 {
						return sigFeeOverflow, fmt.Sprintf("proposal %d sets bandtss FeePerSigner=%s", pid, mm.Params.FeePerSigner)
					}
				case *tunneltypes.MsgUpdateParams:
					if maxIntBits(&mm.Params) > 200 {
						return sigFeeOverflow, fmt.Sprintf("proposal %d sets tunnel BasePacketFee=%s MinDeposit=%s", pid, mm.Params.BasePacketFee, mm.Params.MinDeposit)
					}
				}
			}
		}
	}
	return "C02/finalize-error", "unclassified"
}

var _ = bytes.Equal
var _ abci.Event

func TestC02Adversarial(t *testing.T) { pbt.Check(t, "C02", genAdv, runAdv) }

// TestC02AdvMsgList cross-checks the covered message list with the application's interface registry.
func TestC02AdvMsgList(t *testing.T) {
	ch, err := sim.New(sim.Config{NumAccounts: 2, Validators: []sim.ValSpec{{Tokens: 10_000_000}}}, 0)
	if err != nil {
		t.Fatal(err)
	}
	defer ch.Close()
	covered := map[string]bool{}
	for _, m := range msgTypes {
		covered[m.url] = true
	}
	n := 0
	for _, u := range ch.App.InterfaceRegistry().ListImplementations("cosmos.base.v1beta1.Msg") {
		if !strings.HasPrefix(u, "/band.") {
			continue
		}
		n++
		if !covered[u] {
			t.Errorf("message type %s is registered but not covered", u)
		}
		delete(covered, u)
	}
	for u := range covered {
		t.Errorf("message type %s is covered but not registered", u)
	}
	t.Logf("%d custom-module message types registered, %d covered", n, len(msgTypes))
}
