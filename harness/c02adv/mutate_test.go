package c02adv

// Generic adversarial field mutator: the fields of a message (any gogoproto struct) are enumerated by reflection in
// declaration order ("leaves"); a mutation picks one leaf (index mod number of leaves) and replaces its value by
// one of the adversarial values of the leaf's kind (index mod number of values). Nothing here draws randomness:
// both indices come from the generated case.

import (
	"bytes"
	"compress/gzip"
	"fmt"
	"math/big"
	"reflect"
	"strings"
	"time"

	"cosmossdk.io/math"

	codectypes "github.com/cosmos/cosmos-sdk/codec/types"
	sdk "github.com/cosmos/cosmos-sdk/types"
	"github.com/cosmos/gogoproto/proto"
)

type leaf struct {
	v    reflect.Value
	kind string // uint|int|enum|bool|string|addr|valaddr|bytes|slice|coins|bigint|dec|time|any
	name string
}

var (
	tAny    = reflect.TypeOf(&codectypes.Any{})
	tInt    = reflect.TypeOf(math.Int{})
	tDec    = reflect.TypeOf(math.LegacyDec{})
	tTime   = reflect.TypeOf(time.Time{})
	tCoins  = reflect.TypeOf(sdk.Coins{})
	tDCoins = reflect.TypeOf(sdk.DecCoins{})
)

const maxElemsWalked = 3

func collectLeaves(v reflect.Value, name string, out *[]leaf, depth int) {
	if depth > 6 || !v.IsValid() {
		return
	}
	t := v.Type()
	switch {
	case t == tAny:
		*out = append(*out, leaf{v, "any", name})
		return
	case t == tInt:
		*out = append(*out, leaf{v, "bigint", name})
		return
	case t == tDec:
		*out = append(*out, leaf{v, "dec", name})
		return
	case t == tTime:
		*out = append(*out, leaf{v, "time", name})
		return
	}
	switch v.Kind() {
	case reflect.Ptr:
		if !v.IsNil() {
			collectLeaves(v.Elem(), name, out, depth+1)
		}
	case reflect.Struct:
		for i := 0; i < t.NumField(); i++ {
			f := t.Field(i)
			if f.PkgPath != "" || strings.HasPrefix(f.Name, "XXX_") {
				continue
			}
			collectLeaves(v.Field(i), name+"."+f.Name, out, depth+1)
		}
	case reflect.Slice:
		if t.Elem().Kind() == reflect.Uint8 {
			*out = append(*out, leaf{v, "bytes", name})
			return
		}
		if t == tCoins {
			*out = append(*out, leaf{v, "coins", name})
		} else {
			*out = append(*out, leaf{v, "slice", name})
		}
		for i := 0; i < v.Len() && i < maxElemsWalked; i++ {
			collectLeaves(v.Index(i), fmt.Sprintf("%s[%d]", name, i), out, depth+1)
		}
	case reflect.String:
		s := v.String()
		switch {
		case strings.HasPrefix(s, "bandvaloper1"):
			*out = append(*out, leaf{v, "valaddr", name})
		case strings.HasPrefix(s, "band1"):
			*out = append(*out, leaf{v, "addr", name})
		default:
			*out = append(*out, leaf{v, "string", name})
		}
	case reflect.Uint64, reflect.Uint32, reflect.Uint:
		*out = append(*out, leaf{v, "uint", name})
	case reflect.Int64, reflect.Int:
		*out = append(*out, leaf{v, "int", name})
	case reflect.Int32:
		*out = append(*out, leaf{v, "enum", name})
	case reflect.Bool:
		*out = append(*out, leaf{v, "bool", name})
	}
}

// mutEnv is what the value pools may refer to.
type mutEnv struct {
	addrs    []string // account addresses: other users, validators' accounts, module accounts, unknown, malformed
	valaddrs []string
	strs     []string
	now      time.Time
	wasm     []byte
	offCurve []byte // 33 bytes with a valid prefix whose x is not on the curve
	gPoint   []byte // a valid point nobody uses
}

func rep(b byte, n int) []byte { return bytes.Repeat([]byte{b}, n) }

func gz(b []byte) []byte {
	var buf bytes.Buffer
	w := gzip.NewWriter(&buf)
	_, _ = w.Write(b)
	_ = w.Close()
	return buf.Bytes()
}

func pow2(n uint) *big.Int { return new(big.Int).Lsh(big.NewInt(1), n) }

// mutateLeaf replaces the leaf's value; returns a short description, or "" if nothing was changed.
func (e *mutEnv) mutateLeaf(l leaf, k int, depth int) string {
	if k < 0 {
		k = -k
	}
	v := l.v
	if !v.CanSet() {
		return ""
	}
	switch l.kind {
	case "uint":
		cur := v.Uint()
		vals := []uint64{0, 1, 2, cur + 1, cur - 1, 3, 100, 101, 10000, 10001, 1 << 32, 1<<63 - 1, 1 << 63, ^uint64(0), ^uint64(0) - 1, cur * 2}
		x := vals[k%len(vals)]
		if v.Kind() == reflect.Uint32 {
			x &= 0xffffffff
		}
		v.SetUint(x)
		return fmt.Sprintf("%s=%d", l.name, x)
	case "int":
		cur := v.Int()
		vals := []int64{0, 1, -1, cur + 1, cur - 1, 1<<63 - 1, -1 << 63, 1 << 32, -(1 << 32), cur * 2, -cur, 1<<62 + 1}
		x := vals[k%len(vals)]
		v.SetInt(x)
		return fmt.Sprintf("%s=%d", l.name, x)
	case "enum":
		vals := []int64{0, 1, 2, 3, 4, -1, 99, 1<<31 - 1, -1 << 31}
		x := vals[k%len(vals)]
		v.SetInt(x)
		return fmt.Sprintf("%s=%d", l.name, x)
	case "bool":
		v.SetBool(!v.Bool())
		return l.name + "=flip"
	case "string":
		cur := v.String()
		vals := []string{"", "\x00", cur + "\x00", "\x00" + cur, strings.Repeat("a", 129), strings.Repeat("b", 4097), strings.Repeat("c", 70000),
			"\xff\xfe", cur + "1", strings.ToLower(cur), "channel-0", "channel-18446744073709551616", "0", "1", "-1", "2", "0.5", "NaN", "1.0000000000000000001", " " + cur}
		vals = append(vals, e.strs...)
		x := vals[k%len(vals)]
		v.SetString(x)
		return fmt.Sprintf("%s=%.20q(len %d)", l.name, x, len(x))
	case "addr":
		x := e.addrs[k%len(e.addrs)]
		v.SetString(x)
		return fmt.Sprintf("%s=%.24q", l.name, x)
	case "valaddr":
		x := e.valaddrs[k%len(e.valaddrs)]
		v.SetString(x)
		return fmt.Sprintf("%s=%.24q", l.name, x)
	case "bytes":
		cur := append([]byte(nil), v.Bytes()...)
		flip := append([]byte(nil), cur...)
		if len(flip) > 0 {
			flip[len(flip)-1] ^= 1
		}
		flipFirst := append([]byte(nil), cur...)
		if len(flipFirst) > 0 {
			flipFirst[0] ^= 1
		}
		var trunc []byte
		if len(cur) > 0 {
			trunc = cur[:len(cur)-1]
		}
		big1, big2 := 8193, 512*1024+1
		isCode := strings.HasSuffix(l.name, ".Code") || strings.HasSuffix(l.name, ".Executable")
		vals := [][]byte{nil, {}, {0}, rep(0, 32), rep(0xff, 32), append([]byte{2}, rep(0xff, 32)...), e.offCurve, rep(0, 33), e.gPoint,
			append(append([]byte(nil), e.gPoint...), append(rep(0, 31), 1)...), flip, flipFirst, trunc, append(append([]byte(nil), cur...), 0),
			rep('x', 16), rep('x', 17), rep('x', 512), rep('x', 513), rep('x', 1024), rep('x', 1025), rep('x', 8192), rep('x', big1),
			[]byte("[do-not-modify]"), gz([]byte("small gzipped payload")), gz(rep(0, 9000)), e.wasm, gz(e.wasm), append([]byte{0x1f, 0x8b}, rep(7, 30)...),
			append(append([]byte(nil), cur...), cur...)}
		if isCode {
			vals = append(vals, rep('y', big2), gz(rep(0, big2)), rep('y', 512*1024))
		}
		x := vals[k%len(vals)]
		v.SetBytes(append([]byte(nil), x...))
		if x == nil {
			v.Set(reflect.Zero(v.Type()))
		}
		return fmt.Sprintf("%s=bytes#%d(len %d)", l.name, k%len(vals), len(x))
	case "bigint":
		cur := v.Interface().(math.Int)
		cb := new(big.Int)
		if !cur.IsNil() {
			cb = cur.BigInt()
		}
		vals := []*big.Int{big.NewInt(0), big.NewInt(1), big.NewInt(-1), new(big.Int).Add(cb, big.NewInt(1)), new(big.Int).Sub(cb, big.NewInt(1)),
			new(big.Int).Sub(pow2(63), big.NewInt(1)), pow2(63), pow2(64), pow2(255), new(big.Int).Sub(pow2(256), big.NewInt(1)),
			new(big.Int).Neg(pow2(255)), new(big.Int).Mul(cb, big.NewInt(2)), new(big.Int).Neg(cb)}
		x := vals[k%len(vals)]
		v.Set(reflect.ValueOf(math.NewIntFromBigInt(x)))
		return fmt.Sprintf("%s=%s", l.name, x.String())
	case "dec":
		vals := []string{"0", "1", "-1", "0.000000000000000001", "1000000000000000000", "0.5", "-0.000000000000000001", "100"}
		x := vals[k%len(vals)]
		v.Set(reflect.ValueOf(math.LegacyMustNewDecFromStr(x)))
		return fmt.Sprintf("%s=%s", l.name, x)
	case "time":
		vals := []time.Time{{}, time.Unix(0, 0).UTC(), time.Unix(1, 0).UTC(), e.now.Add(-time.Second), e.now, e.now.Add(time.Second), e.now.Add(3 * time.Second),
			e.now.Add(100000 * time.Second), time.Unix(253402300799, 0).UTC(), e.now.Add(1 << 62), e.now.Add(-(1 << 62)), e.now.Add(24 * time.Hour), e.now.Add(8 * 24 * time.Hour)}
		x := vals[k%len(vals)]
		v.Set(reflect.ValueOf(x))
		return fmt.Sprintf("%s=%s", l.name, x.Format(time.RFC3339))
	case "coins":
		cur, _ := v.Interface().(sdk.Coins)
		c := func(d string, a int64) sdk.Coin { return sdk.Coin{Denom: d, Amount: math.NewInt(a)} }
		first := c("uband", 7)
		if len(cur) > 0 {
			first = cur[0]
		}
		vals := []sdk.Coins{nil, {}, {c("uatom", 1), first}, {first, c("uatom", 1)}, {first, first}, {c(first.Denom, 0)}, {c(first.Denom, -1)},
			{sdk.Coin{Denom: first.Denom, Amount: math.NewIntFromBigInt(pow2(255))}}, {c("u", 5)}, {c("uband\x00", 5)}, {c("", 5)}, {c("uatom", 5)}, {c("unknowndenom", 5)},
			{c("uatom", 0), first}, {c("uband", 1)}, {c("uband", 1_000_000_000_000_000)}, {sdk.Coin{Denom: "uband"}}}
		x := vals[k%len(vals)]
		v.Set(reflect.ValueOf(x))
		return fmt.Sprintf("%s=coins#%d", l.name, k%len(vals))
	case "slice":
		n := v.Len()
		t := v.Type()
		mk := func(m int) reflect.Value { return reflect.MakeSlice(t, 0, m) }
		variant := k % 11
		var out reflect.Value
		longN := []int{33, 301, 2000}[(k/11)%3]
		switch variant {
		case 0:
			out = reflect.Zero(t)
		case 1: // duplicate the first element at the end
			if n == 0 {
				out = reflect.Append(mk(1), reflect.Zero(t.Elem()))
			} else {
				out = reflect.Append(reflect.AppendSlice(mk(n+1), v), v.Index(0))
			}
		case 2: // reversed (unsorted)
			out = mk(n)
			for i := n - 1; i >= 0; i-- {
				out = reflect.Append(out, v.Index(i))
			}
		case 3, 4: // very long: the elements repeated (3: verbatim duplicates, 4: made distinct)
			out = mk(longN)
			for i := 0; i < longN; i++ {
				var el reflect.Value
				if n == 0 {
					el = reflect.New(t.Elem()).Elem()
				} else {
					el = reflect.New(t.Elem()).Elem()
					el.Set(v.Index(i % n))
				}
				if variant == 4 {
					distinct(el, i)
				}
				out = reflect.Append(out, el)
			}
		case 5: // drop last
			if n == 0 {
				return ""
			}
			out = reflect.AppendSlice(mk(n), v.Slice(0, n-1))
		case 6: // append a zero element
			out = reflect.Append(reflect.AppendSlice(mk(n+1), v), reflect.Zero(t.Elem()))
		case 7: // everything twice
			out = reflect.AppendSlice(reflect.AppendSlice(mk(2*n), v), v)
		case 8: // only the first
			if n == 0 {
				return ""
			}
			out = reflect.AppendSlice(mk(1), v.Slice(0, 1))
		case 9: // drop first
			if n == 0 {
				return ""
			}
			out = reflect.AppendSlice(mk(n), v.Slice(1, n))
		case 10: // exactly at small limits: 16/17 distinct elements
			m := []int{16, 17, 25, 26}[(k/11)%4]
			out = mk(m)
			for i := 0; i < m; i++ {
				el := reflect.New(t.Elem()).Elem()
				if n > 0 {
					el.Set(v.Index(i % n))
				}
				distinct(el, i)
				out = reflect.Append(out, el)
			}
		}
		v.Set(out)
		return fmt.Sprintf("%s=slice#%d(len %d)", l.name, variant, out.Len())
	case "any":
		return e.mutateAny(l, k, depth)
	}
	return ""
}

// distinct makes an element different from its siblings by editing its first string / integer / bytes field.
func distinct(el reflect.Value, i int) {
	switch el.Kind() {
	case reflect.String:
		el.SetString(fmt.Sprintf("%s%d", el.String(), i))
	case reflect.Uint64, reflect.Uint32:
		el.SetUint(el.Uint() + uint64(i))
	case reflect.Int64, reflect.Int32:
		el.SetInt(el.Int() + int64(i))
	case reflect.Struct:
		if el.Type() == tInt || el.Type() == tDec || el.Type() == tTime {
			return
		}
		for f := 0; f < el.NumField(); f++ {
			fv := el.Field(f)
			if !fv.CanSet() {
				continue
			}
			switch fv.Kind() {
			case reflect.String, reflect.Uint64, reflect.Uint32, reflect.Int64:
				distinct(fv, i)
				return
			}
		}
	}
}

var anyAlternatives []func() proto.Message

func (e *mutEnv) mutateAny(l leaf, k int, depth int) string {
	cur, _ := l.v.Interface().(*codectypes.Any)
	variant := k % 8
	set := func(a *codectypes.Any) { l.v.Set(reflect.ValueOf(a)) }
	switch variant {
	case 0:
		set(nil)
		return l.name + "=nil-any"
	case 1, 2: // another registered implementation / a foreign type
		alt := anyAlternatives[(k/8)%len(anyAlternatives)]()
		a, err := codectypes.NewAnyWithValue(alt)
		if err != nil {
			return ""
		}
		set(a)
		return fmt.Sprintf("%s=any(%s)", l.name, a.TypeUrl)
	case 3: // right type url, garbage value
		if cur == nil {
			return ""
		}
		set(&codectypes.Any{TypeUrl: cur.TypeUrl, Value: rep(0xff, 9)})
		return l.name + "=any-garbage-value"
	case 4: // empty type url
		if cur == nil {
			return ""
		}
		set(&codectypes.Any{TypeUrl: "", Value: cur.Value})
		return l.name + "=any-empty-url"
	default: // mutate a field of the packed value
		if cur == nil || depth > 1 {
			return ""
		}
		pm, ok := cur.GetCachedValue().(proto.Message)
		if !ok || pm == nil {
			return ""
		}
		cp := cloneMsg(pm)
		if cp == nil {
			return ""
		}
		var ls []leaf
		collectLeaves(reflect.ValueOf(cp), "", &ls, 0)
		if len(ls) == 0 {
			return ""
		}
		d := e.mutateLeaf(ls[(k/8)%len(ls)], k/64+k, depth+1)
		a, err := codectypes.NewAnyWithValue(cp)
		if err != nil {
			return ""
		}
		set(a)
		return l.name + "→" + d
	}
}

// kindOfMut names the class of a mutation for the histogram.
func applyMutation(e *mutEnv, msg proto.Message, path, k int) (kind, desc string) {
	var ls []leaf
	collectLeaves(reflect.ValueOf(msg), "", &ls, 0)
	if len(ls) == 0 {
		return "", ""
	}
	if path < 0 {
		path = -path
	}
	l := ls[path%len(ls)]
	return l.kind, e.mutateLeaf(l, k, 0)
}

// cloneMsg copies a message through its wire form (gogoproto's Clone cannot copy math.Int / Any fields).
func cloneMsg(m proto.Message) (out proto.Message) {
	defer func() {
		if r := recover(); r != nil {
			out = nil
		}
	}()
	bz, err := proto.Marshal(m)
	if err != nil {
		return nil
	}
	n, ok := reflect.New(reflect.TypeOf(m).Elem()).Interface().(proto.Message)
	if !ok {
		return nil
	}
	if err := proto.Unmarshal(bz, n); err != nil {
		return nil
	}
	return n
}
