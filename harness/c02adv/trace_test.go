package c02adv

// Triage helper (VERIF_C02ADV_TRACE=1): after a block failed with a panic, FinalizeBlock is called once more with
// the same request without chainsim's recover wrapper so that the stack of the panic can be printed.

import (
	"crypto/sha256"
	"fmt"
	"runtime/debug"
	"time"

	abci "github.com/cometbft/cometbft/abci/types"
	cmtproto "github.com/cometbft/cometbft/proto/tendermint/types"

	"verif/harness/sim"
)

func traceFinalize(ch *sim.Chain, txs [][]byte, dt time.Duration) (out string) {
	defer func() {
		if r := recover(); r != nil {
			out = fmt.Sprintf("panic: %v\n%s", r, debug.Stack())
		}
	}()
	h := ch.Height + 1
	t := ch.Time.Add(dt)
	var votes []abci.VoteInfo
	for i, vs := range ch.Cfg.Validators {
		votes = append(votes, abci.VoteInfo{Validator: abci.Validator{Address: ch.ConsKeys[i].PubKey().Address(), Power: vs.Tokens / 1_000_000}, BlockIdFlag: cmtproto.BlockIDFlagCommit})
	}
	hsum := sha256.Sum256([]byte(fmt.Sprintf("blk-%d-%d-%d", h, t.UnixNano(), len(txs))))
	req := &abci.RequestFinalizeBlock{Height: h, Time: t, Txs: txs, Hash: hsum[:], ProposerAddress: ch.ConsKeys[0].PubKey().Address(),
		DecidedLastCommit: abci.CommitInfo{Votes: votes}, NextValidatorsHash: hsum[:]}
	_, err := ch.App.FinalizeBlock(req)
	return fmt.Sprintf("no panic on the second attempt (err=%v)", err)
}
