package c02adv

// Development aid: VERIF_C02ADV_LEAVES=1 go test -run TestC02AdvLeaves -v prints, for every message type, the fields
// ("leaves") of its template in the order the mutator numbers them, so that replay cases can be written by hand.

import (
	"fmt"
	"os"
	"reflect"
	"testing"
	"time"

	"github.com/bandprotocol/chain/v3/pkg/tss"

	"verif/harness/pbt"
	"verif/harness/sim"
)

func TestC02AdvLeaves(t *testing.T) {
	if os.Getenv("VERIF_C02ADV_LEAVES") == "" {
		t.Skip("development aid")
	}
	c := advCase{NVals: 2, SecondGroup: true, Cfg: make([]int, nCfg)}
	w := &world{c: c, v: &pbt.Verdict{}, privs: map[uint64]map[string]tss.Scalar{}, dkgs: map[uint64]map[string]*dkgMember{}, props: map[uint64][]*comp{}}
	ch, err := sim.New(w.buildConfig(), 0)
	if err != nil {
		t.Fatal(err)
	}
	defer ch.Close()
	w.ch, w.u, w.ghost = ch, ch.Users, sim.NewAccount("ghost")
	if !w.setup() {
		t.Fatal(w.v.Violation)
	}
	w.beginBlock(time.Second)
	for ti, mt := range msgTypes {
		for _, b := range w.template(ti, advTx{T: ti, S: []int{0, 0, 0}}) {
			var ls []leaf
			collectLeaves(reflect.ValueOf(b.msg), "", &ls, 0)
			fmt.Printf("%d %s\n", ti, mt.url)
			for i, l := range ls {
				fmt.Printf("    p=%d %-8s %s\n", i, l.kind, l.name)
			}
			break
		}
	}
}
