// Package c17 checks property C17: tunnel deposits are fully backed, owner-withdrawable, and gate activation.
//
// Stateful rapid test on the real application. The oracle is a small reference ledger written from the
// statement (who deposited how much where, who created which tunnel, which tunnel was activated) that is
// advanced ONLY by messages the chain reports as successful; after every block the three ledgers of the
// chain (Deposit records, Tunnel.TotalDeposit, bank balances) and the active flag / active index are compared
// with it. Rejected messages do not touch the reference ledger, so "a rejected op changes nothing" is the same
// comparison.
package c17

import (
	"bytes"
	"encoding/json"
	"fmt"
	"math/big"
	"sort"
	"strings"
	"testing"
	"time"

	"pgregory.net/rapid"

	sdk "github.com/cosmos/cosmos-sdk/types"
	authtypes "github.com/cosmos/cosmos-sdk/x/auth/types"
	banktypes "github.com/cosmos/cosmos-sdk/x/bank/types"

	feedstypes "github.com/bandprotocol/chain/v3/x/feeds/types"
	tunnelkeeper "github.com/bandprotocol/chain/v3/x/tunnel/keeper"
	tunneltypes "github.com/bandprotocol/chain/v3/x/tunnel/types"

	"verif/harness/gen"
	"verif/harness/pbt"
	"verif/harness/sim"
)

// ---- case --------------------------------------------------------------------------------------------

const nUsers = 3

var c17Denoms = [3]string{"uband", "uatom", "ufoo"} // ufoo is never part of the minimum deposit

type amt3 [3]int64

type c17Op struct {
	K     string `json:"k"`               // create|deposit|withdraw|activate|deactivate|trigger|fund|update|reimport|sendmod|minparams|badimport|end
	U     int    `json:"u,omitempty"`     // signer (create/deposit/withdraw/fund) or offset from the creator (activate/deactivate/trigger/update)
	T     int    `json:"t,omitempty"`     // late-bound tunnel: id = 1 + T mod (number of tunnels)
	Ghost bool   `json:"ghost,omitempty"` // use the first id that does not exist
	Mode  string `json:"mode,omitempty"`  // none|abs|min|gap|own|other|bal|total : base value the amount is derived from at run time
	D     amt3   `json:"d,omitempty"`     // per-denom offset from the base (abs: the amount itself)
	Mask  int    `json:"mask,omitempty"`  // denoms taking part (bit i = c17Denoms[i])
	Hold  bool   `json:"hold,omitempty"`  // keep the tx for the same block as the next op
	Seek  bool   `json:"seek,omitempty"`  // withdraw: start from the next account that has a deposit in the tunnel; update: start from the next tunnel that is active
	Sig   string `json:"sig,omitempty"`   // update: same|dev|new|more|fewer|empty|dup : how the new signal deviations derive from the tunnel's current ones
	Keep  bool   `json:"keep,omitempty"`  // update: keep the tunnel's current interval (else Intv)
	Multi int    `json:"multi,omitempty"` // sendmod: 0 bank MsgSend, 1 MsgMultiSend to the module account, 2 MsgMultiSend to the module account and another user
	Route string `json:"route,omitempty"` // tss|ibc
	Intv  uint64 `json:"intv,omitempty"`
	NSig  int    `json:"nsig,omitempty"`
	Dev   uint64 `json:"dev,omitempty"`
	Dt    int    `json:"dt,omitempty"`
}

type c17Case struct {
	Min amt3    `json:"min"` // tunnel MinDeposit (0 = denom not part of it)
	Bal amt3    `json:"bal"` // genesis balance of every account
	Fee int64   `json:"fee"` // BasePacketFee in uband (0 = empty)
	Ops []c17Op `json:"ops"`
}

func genMask(rt *rapid.T, minMask int) int {
	if minMask == 0 {
		return gen.Range(rt, "mask", 1, 7)
	}
	single := func() int {
		var bits []int
		for i := 0; i < 2; i++ {
			if minMask&(1<<i) != 0 {
				bits = append(bits, 1<<i)
			}
		}
		return bits[gen.Uniform(rt, "bit", len(bits))]
	}
	switch gen.Pick(rt, "maskkind", 10, 6, 1, 1, 1) {
	case 0:
		return minMask
	case 1:
		return single()
	case 2:
		return minMask | 4
	case 3:
		if f := 7 &^ minMask; f != 0 {
			return f
		}
		return 4
	default:
		return gen.Range(rt, "mask", 1, 7)
	}
}

func genDelta(rt *rapid.T) amt3 {
	var d amt3
	same := gen.OneOf[int64](rt, "delta", -1, 0, 0, 0, 1)
	for i := range d {
		d[i] = same
		if gen.Chance(rt, "indep", 1, 3) {
			d[i] = gen.OneOf[int64](rt, "delta-i", -1, 0, 0, 1)
		}
	}
	return d
}

func genC17(rt *rapid.T) c17Case {
	var c c17Case
	minMask := gen.Pick(rt, "minmask", 1, 8, 5, 16) // 0: empty minimum, 1: uband, 2: uatom, 3: both
	for i := 0; i < 2; i++ {
		if minMask&(1<<i) != 0 {
			c.Min[i] = rapid.Int64Range(1, 400).Draw(rt, "min")
		}
	}
	for i := range c.Bal {
		c.Bal[i] = gen.OneOf[int64](rt, "balkind", 1, 2, 3, 3, 5) * (c.Min[i] + rapid.Int64Range(1, 60).Draw(rt, "balextra"))
	}
	c.Fee = gen.OneOf[int64](rt, "fee", 0, 0, 0, 0, 1, 7)

	absAmt := func() amt3 {
		var d amt3
		for i := range d {
			hi := 2 * c.Min[i]
			if hi < 5 {
				hi = 5
			}
			d[i] = rapid.Int64Range(1, hi).Draw(rt, "abs")
		}
		return d
	}
	nops := rapid.IntRange(20, 60).Draw(rt, "nops")
	creates := 0
	for i := 0; i < nops; i++ {
		wCreate := 10
		if creates >= 3 {
			wCreate = 1
		} else if creates >= 1 {
			wCreate = 5
		}
		k := gen.Pick(rt, "op", wCreate, 26, 24, 15, 5, 3, 5, 13, 10, 3, 4, 3, 3)
		if i == 0 {
			k = 0
		}
		op := c17Op{T: gen.Uniform(rt, "tun", 3), Ghost: gen.Chance(rt, "ghost", 1, 25), Hold: gen.Chance(rt, "hold", 1, 4)}
		switch k {
		case 0:
			creates++
			op.K, op.U, op.Ghost = "create", gen.Uniform(rt, "user", nUsers), false
			op.Mode = gen.OneOf(rt, "cmode", "none", "none", "abs", "abs", "min", "min", "bal")
			op.Mask = genMask(rt, minMask)
			op.D = genDelta(rt)
			if op.Mode == "abs" {
				op.D = absAmt()
			}
			if i == 0 { // the first tunnel should normally come into existence
				op.Mode, op.Mask, op.D = gen.OneOf(rt, "cmode0", "none", "min"), minMask, amt3{}
			}
			op.Route = gen.OneOf(rt, "route", "tss", "tss", "tss", "ibc")
			op.Intv = gen.OneOf[uint64](rt, "intv", 1, 60, 60, 3600)
			op.NSig = gen.OneOf(rt, "nsig", 1, 1, 2, 3)
			op.Dev = gen.OneOf[uint64](rt, "dev", 50, 100, 777, 2998) // hard deviation = Dev+i stays <= 3000
			if i > 0 && gen.Chance(rt, "badparams", 1, 16) {
				switch gen.Uniform(rt, "bad", 5) {
				case 0:
					op.Intv = 0
				case 1:
					op.Intv = 3601
				case 2:
					op.NSig = 4
				case 3:
					op.Dev = 49
				default:
					op.Dev = 3001
				}
			}
		case 1:
			op.K, op.U = "deposit", gen.Uniform(rt, "user", nUsers)
			op.Mode = gen.OneOf(rt, "dmode", "abs", "abs", "abs", "min", "gap", "gap", "gap", "bal")
			op.Mask = genMask(rt, minMask)
			op.D = genDelta(rt)
			if op.Mode == "abs" {
				op.D = absAmt()
			}
		case 2:
			op.K, op.U = "withdraw", gen.Uniform(rt, "user", nUsers)
			op.Mode = gen.OneOf(rt, "wmode", "abs", "abs", "min", "gap", "gap", "gap", "own", "own", "own", "other", "total")
			op.Seek = gen.Chance(rt, "seek", 7, 10) && op.Mode != "other" && op.Mode != "total"
			op.Mask = genMask(rt, minMask)
			op.D = genDelta(rt)
			if op.Mode == "abs" {
				op.D = absAmt()
			}
		case 3, 4, 5:
			op.K = []string{"activate", "deactivate", "trigger"}[k-3]
			op.U = gen.Pick(rt, "who", 6, 2, 2) // 0: the creator, 1/2: the other accounts
		case 6:
			op.K, op.U = "fund", gen.Uniform(rt, "user", nUsers)
			op.D[0] = gen.OneOf[int64](rt, "fund", -1, 0, 0, 1, 3)
		case 8:
			// MsgUpdateSignalsAndInterval: by the creator (mostly) or by somebody else, on whatever state the tunnel is in
			op.K = "update"
			op.U = gen.Pick(rt, "who", 7, 1, 1)
			op.Seek = gen.Chance(rt, "seekactive", 3, 4)
			// values the parameters allow, boundaries included: interval in [1, 3600], deviations in [50, 3000] (the hard
			// deviation of signal i is Dev+i), at most 3 signals ("more"/"fewer" leave the range on their own when the
			// tunnel already has 3 / only 1)
			op.Sig = gen.OneOf(rt, "sig", "same", "dev", "dev", "new", "new", "more", "fewer")
			op.NSig = gen.OneOf(rt, "nsig", 1, 2, 3)
			op.Dev = gen.OneOf[uint64](rt, "dev", 50, 50, 100, 777, 2998, 2998)
			op.Intv = gen.OneOf[uint64](rt, "intv", 1, 1, 2, 60, 3599, 3600, 3600)
			if gen.Chance(rt, "badupdate", 1, 5) { // one field just outside
				switch gen.Uniform(rt, "bad", 5) {
				case 0:
					op.Sig = gen.OneOf(rt, "badsig", "empty", "dup")
				case 1:
					op.Sig, op.NSig = "new", 4
				case 2:
					op.Dev = gen.OneOf[uint64](rt, "baddev", 49, 2999, 3000, 3001) // 2999/3000: in range for the first signal(s) only
				case 3:
					op.Intv = 0
				default:
					op.Intv = 3601
				}
			}
			op.Keep = gen.Chance(rt, "keepintv", 1, 5)
		case 9:
			// genesis export -> import into a new application instance, then one block
			op = c17Op{K: "reimport", Dt: gen.OneOf(rt, "dt", 1, 1, 5)}
		case 10:
			// coins pushed INTO the tunnel module account from outside the module (plain bank messages): 1 unit, a small
			// amount or the sender's whole balance, in denoms of the minimum deposit and others
			op = c17Op{K: "sendmod", U: gen.Uniform(rt, "user", nUsers), Multi: gen.Pick(rt, "multi", 3, 2, 1),
				Mode: gen.OneOf(rt, "smode", "one", "one", "abs", "abs", "bal"), Mask: gen.OneOf(rt, "smask", 1, 1, 2, 4, 3, 7),
				D:    amt3{rapid.Int64Range(2, 30).Draw(rt, "s0"), rapid.Int64Range(2, 30).Draw(rt, "s1"), rapid.Int64Range(2, 30).Draw(rt, "s2")},
				Hold: gen.Chance(rt, "hold", 1, 4)}
			if gen.Chance(rt, "reimport-after-send", 1, 3) {
				c.Ops = append(c.Ops, op)
				op = c17Op{K: "reimport", Dt: 1}
			}
		case 11:
			// governance changes the minimum deposit in flight: just above the total of some active tunnel, doubled,
			// halved, moved to the other denom, or back to the genesis value
			op = c17Op{K: "minparams", T: gen.Uniform(rt, "tun", 3), Mode: gen.OneOf(rt, "pmode", "above", "above", "double", "half", "swap", "genesis")}
		case 12:
			// an operator's migration script damages the exported genesis: the tunnel module account's balance entry is
			// dropped (or one unit short) while the tunnel module's own section still records the deposits; a node must
			// refuse to start from it
			op = c17Op{K: "badimport", T: gen.Uniform(rt, "tun", 3), Mode: gen.OneOf(rt, "bimode", "zero", "zero", "minus1", "norecords", "norecords")}
		default:
			op = c17Op{K: "end", Dt: gen.OneOf(rt, "dt", 1, 1, 1, 5, 61)}
		}
		c.Ops = append(c.Ops, op)
	}
	// constructed opening (2 cases in 5): a TSS-route tunnel and an IBC-route tunnel, each created with exactly the
	// minimum deposit by a different account and activated by its creator; the state is exported and re-imported while
	// both are active - right away, or after some of the random operations
	if gen.Chance(rt, "reimport-scenario", 2, 5) {
		a := gen.Uniform(rt, "ua", nUsers)
		b := (a + 1 + gen.Uniform(rt, "ub", nUsers-1)) % nUsers
		routes := [2]string{"tss", "ibc"}
		if gen.Chance(rt, "ibcfirst", 1, 2) {
			routes = [2]string{"ibc", "tss"}
		}
		mk := func(u int, route string) c17Op {
			return c17Op{K: "create", U: u, Mode: "min", Mask: minMask, Route: route, Intv: gen.OneOf[uint64](rt, "intv", 1, 60, 3600),
				NSig: gen.OneOf(rt, "nsig", 1, 2, 3), Dev: gen.OneOf[uint64](rt, "dev", 50, 100, 2998), Hold: gen.Chance(rt, "hold", 1, 3)}
		}
		second := mk(b, routes[1])
		second.Hold = false // both tunnels exist before the activations are bound
		open := []c17Op{mk(a, routes[0]), second,
			{K: "activate", T: 0, Hold: gen.Chance(rt, "hold", 1, 3)}, {K: "activate", T: 1, Hold: gen.Chance(rt, "hold", 1, 3)}}
		rest := c.Ops[1:] // (the generated first op is the create that the opening replaces)
		at := gen.Range(rt, "reimport-at", 0, 12)
		if gen.Chance(rt, "reimport-now", 1, 2) {
			at = 0
		}
		if at > len(rest) {
			at = len(rest)
		}
		ops := append([]c17Op{}, open...)
		ops = append(ops, rest[:at]...)
		ops = append(ops, c17Op{K: "reimport", Dt: gen.OneOf(rt, "dt", 1, 1, 5)})
		ops = append(ops, rest[at:]...)
		c.Ops = ops
	}
	return c
}

// ---- reference ledger ----------------------------------------------------------------------------------

type sigDev struct {
	id         string
	soft, hard uint64
}

type refTunnel struct {
	creator   int
	dep       [nUsers]amt3
	active    bool
	grand     bool     // active while governance raised the minimum above its total: the statement is silent on it until it is next inactive or covered again
	lenient   bool     // a withdrawal from such a tunnel: deactivation accepted, not demanded
	route     string   // tss|ibc (create message; never changes in this world)
	intv      uint64   // configuration: set by the create message, replaced only by a successful update of the creator
	sigs      []sigDev //
	immutable []byte   // marshalled tunnel record without IsActive/TotalDeposit/Interval/SignalDeviations
	sent      bool     // a packet was ever produced/triggered successfully (sequence may move)
	// per block
	strangerUpdate bool // an update signed by somebody else than the creator was refused in this block
}

func sameSigs(a, b []sigDev) bool {
	if len(a) != len(b) {
		return false
	}
	for i := range a {
		if a[i] != b[i] {
			return false
		}
	}
	return true
}

func toSignalDeviations(sd []sigDev) []tunneltypes.SignalDeviation {
	var out []tunneltypes.SignalDeviation
	for _, s := range sd {
		out = append(out, tunneltypes.NewSignalDeviation(s.id, s.soft, s.hard))
	}
	return out
}

// Parameters of the module in this world (README "Params"): interval in [1, 3600] s, deviations in [50, 3000] bps,
// at most 3 signals. cfgValid is what the documentation calls an acceptable configuration; used for statistics only.
const (
	pMinInterval, pMaxInterval = 1, 3600
	pMinDev, pMaxDev           = 50, 3000
	pMaxSignals                = 3
)

func cfgValid(sd []sigDev, intv uint64) bool {
	if len(sd) == 0 || len(sd) > pMaxSignals || intv < pMinInterval || intv > pMaxInterval {
		return false
	}
	seen := map[string]bool{}
	for _, s := range sd {
		if seen[s.id] || s.soft < pMinDev || s.soft > pMaxDev || s.hard < pMinDev || s.hard > pMaxDev {
			return false
		}
		seen[s.id] = true
	}
	return true
}

// createSigs is the signal list of a create op.
func createSigs(o c17Op) []sigDev {
	var sds []sigDev
	for i := 0; i < o.NSig; i++ {
		sds = append(sds, sigDev{fmt.Sprintf("CS:SIG%d-USD", i), o.Dev, o.Dev + uint64(i)})
	}
	return sds
}

// updateSigs derives the signal list of an update op from the tunnel's current one (late-bound).
func updateSigs(o c17Op, cur []sigDev) []sigDev {
	var out []sigDev
	switch o.Sig {
	case "same":
		out = append(out, cur...)
	case "dev": // same signals, new deviations
		for i, s := range cur {
			out = append(out, sigDev{s.id, o.Dev, o.Dev + uint64(i)})
		}
	case "new": // other signals
		for i := 0; i < o.NSig; i++ {
			out = append(out, sigDev{fmt.Sprintf("CS:NEW%d-USD", i), o.Dev, o.Dev + uint64(i)})
		}
	case "more": // one more signal (over MaxSignals when the tunnel already has three)
		out = append(out, cur...)
		out = append(out, sigDev{fmt.Sprintf("CS:ADD%d-USD", len(cur)), o.Dev, o.Dev})
	case "fewer":
		if len(cur) > 0 {
			out = append(out, cur[:len(cur)-1]...)
		}
	case "dup":
		if len(cur) > 0 {
			out = append(out, cur[0], cur[0])
		}
	case "empty":
	}
	return out
}

func (t *refTunnel) total() amt3 {
	var s amt3
	for _, d := range t.dep {
		for i := range s {
			s[i] += d[i]
		}
	}
	return s
}

func (t *refTunnel) depositors() int {
	n := 0
	for _, d := range t.dep {
		if d != (amt3{}) {
			n++
		}
	}
	return n
}

// covers is the statement's "total deposit covers the minimum": every denom of the minimum is reached.
func covers(total, min amt3) bool {
	for i := range min {
		if total[i] < min[i] {
			return false
		}
	}
	return true
}

func toCoins(a amt3) sdk.Coins {
	var cs []sdk.Coin
	for i, x := range a {
		if x > 0 {
			cs = append(cs, sdk.NewInt64Coin(c17Denoms[i], x))
		}
	}
	return sdk.NewCoins(cs...)
}

func fromCoins(cs sdk.Coins) (amt3, bool) {
	var a amt3
	n := 0
	for i, d := range c17Denoms {
		x := cs.AmountOf(d)
		if !x.IsInt64() || x.IsNegative() {
			return a, false
		}
		a[i] = x.Int64()
		if a[i] != 0 {
			n++
		}
	}
	return a, n == len(cs)
}

func add(a, b amt3) amt3 { return amt3{a[0] + b[0], a[1] + b[1], a[2] + b[2]} }
func sub(a, b amt3) amt3 { return amt3{a[0] - b[0], a[1] - b[1], a[2] - b[2]} }
func allLE(a, b amt3) bool {
	return a[0] <= b[0] && a[1] <= b[1] && a[2] <= b[2]
}

type pendTx struct {
	op     c17Op
	signer int
	tid    uint64
	amt    amt3
	sigs   []sigDev // create/update: the configuration in the message
	intv   uint64
	amt2   amt3 // sendmod with a second output
}

// the application cannot be initialised from a genesis document that it exported itself
const sigImportPanics = "C17/genesis-import-panics"

func runC17(c c17Case) *pbt.Verdict {
	v := &pbt.Verdict{}
	tp := tunneltypes.DefaultParams()
	tp.MinDeposit = toCoins(c.Min)
	curMin := c.Min // the minimum deposit in force (governance may change it, op "minparams")
	tp.BasePacketFee = toCoins(amt3{c.Fee, 0, 0})
	tp.MinInterval, tp.MaxInterval, tp.MaxSignals = pMinInterval, pMaxInterval, pMaxSignals
	tp.MinDeviationBPS, tp.MaxDeviationBPS = pMinDev, pMaxDev
	ch, err := sim.New(sim.Config{
		NumAccounts: nUsers, Validators: []sim.ValSpec{{Tokens: 10_000_000}}, Tunnel: &tp, MintOff: true,
		Balance: toCoins(c.Bal),
	}, 0)
	if err != nil {
		v.Failf("harness", "sim.New: %v", err)
		return v
	}
	defer ch.Close()
	k := ch.App.TunnelKeeper
	cdc := ch.App.AppCodec()
	moduleAddr := authtypes.NewModuleAddress(tunneltypes.ModuleName)

	var tunnels []*refTunnel // index = id-1
	var bal [nUsers]amt3
	for i := range bal {
		bal[i] = c.Bal
	}
	var pending []pendTx
	var txs [][]byte
	inapplicable := 0
	twoDepositors, crossings, crossingsActive := false, 0, 0
	minChanges := 0
	badImports := 0
	updActive, updInactive, updNonCreator := 0, 0, 0
	sendRefused, sendAccepted := 0, 0

	userIdx := func(addr string) int {
		for i := 0; i < nUsers; i++ {
			if ch.Users[i].Addr.String() == addr {
				return i
			}
		}
		return -1
	}

	reimports, reimpTSS, reimpIBC := 0, 0, 0
	var flushBlock func(dt int, reimport bool) bool
	flush := func(dt int) bool { return flushBlock(dt, false) }
	// reimport: the operator's export -> start-from-exported-genesis path, then one block. Everything the reference
	// ledger holds is carried by the exported documents (x/tunnel: params, count, tunnel records incl. IsActive,
	// sequence, configuration, total deposit; deposit records; total fees. bank: balances. auth: accounts), so the
	// reference is NOT touched and the block after the import is compared like every other block. What the format
	// does not carry - packets and the latest-prices/interval-clock records - is rebuilt empty by the import; in this
	// world they are empty anyway as long as nothing was sent, and nothing is asserted about them once something was.
	doReimport := func(dt int) bool {
		if len(txs) > 0 && !flush(1) {
			return false
		}
		if dt < 1 {
			dt = 1
		}
		if len(tunnels) > 0 && pbt.IsExcluded("C17", sigImportPanics) {
			// registered open finding: the import of any state with a tunnel panics; stay out of that region
			v.Count("reimport_skipped_known_finding", 1)
			return true
		}
		reimports++
		nTSS, nIBC := 0, 0
		for _, t := range tunnels {
			if t.active && t.route == "ibc" {
				nIBC++
			} else if t.active {
				nTSS++
			}
		}
		v.Count("reimports", 1)
		v.Count("reimport_tunnels", int64(len(tunnels)))
		v.Count("reimport_active_tss_tunnels", int64(nTSS))
		v.Count("reimport_active_ibc_tunnels", int64(nIBC))
		if nTSS > 0 {
			reimpTSS++
		}
		if nIBC > 0 {
			reimpIBC++
		}
		return flushBlock(dt, true)
	}
	flushBlock = func(dt int, reimport bool) bool {
		var res *sim.BlockResult
		var err error
		if reimport {
			res, err = ch.Reimport(time.Duration(dt) * time.Second)
			if err != nil {
				// the state was produced by accepted messages only: the node must be able to start from its own export
				sig := "C17/genesis-import-fails"
				if strings.Contains(err.Error(), "panic") {
					sig = sigImportPanics
				}
				v.Failf(sig, "genesis export/import of a state with %d tunnels (built from accepted messages only) failed: %v", len(tunnels), err)
				return false
			}
			k, cdc = ch.App.TunnelKeeper, ch.App.AppCodec() // a new application instance
		} else {
			res, err = ch.Block(txs, time.Duration(dt)*time.Second)
			if err != nil {
				v.Failf("C17/finalize", "block with %d txs failed: %v", len(txs), err)
				return false
			}
		}
		anySuccess := false
		for i, p := range pending {
			tr := res.Resp.TxResults[i]
			ok := tr.Code == 0
			v.Count(fmt.Sprintf("%s_%s", p.op.K, map[bool]string{true: "ok", false: "rejected"}[ok]), 1)
			var t *refTunnel
			if p.tid >= 1 && p.tid <= uint64(len(tunnels)) {
				t = tunnels[p.tid-1]
			}
			if !ok {
				v.Count(fmt.Sprintf("rej_%s_%s/%d", p.op.K, tr.Codespace, tr.Code), 1)
				// statistics only: why would the statement expect a rejection
				switch p.op.K {
				case "activate":
					switch {
					case t == nil:
					case t.creator != p.signer:
						v.Class("activate-stranger-rejected")
					case !covers(t.total(), curMin):
						v.Class("activate-below-min-rejected")
					case !t.active:
						v.Count("converse_mismatch", 1) // creator, covered, inactive, still refused
					}
				case "withdraw":
					if t != nil && !allLE(p.amt, t.dep[p.signer]) {
						v.Class("overdraw-rejected")
						if allLE(p.amt, t.total()) {
							v.Class("withdraw-others-money-rejected")
						}
					}
				case "deposit":
					if t != nil && !allLE(p.amt, bal[p.signer]) {
						v.Class("deposit-over-balance-rejected")
					}
				case "sendmod":
					sendRefused++
				case "update":
					switch {
					case t == nil:
					case t.creator != p.signer:
						t.strangerUpdate = true
						updNonCreator++
					case cfgValid(p.sigs, p.intv):
						v.Count("converse_mismatch_update", 1) // creator, documented-valid configuration, still refused
					default:
						v.Class("update-invalid-config-rejected")
					}
				}
				continue
			}
			anySuccess = true
			switch p.op.K {
			case "create":
				nt := &refTunnel{creator: p.signer, intv: p.intv, sigs: p.sigs, route: "tss"}
				if p.op.Route == "ibc" {
					nt.route = "ibc"
				}
				nt.dep[p.signer] = p.amt
				bal[p.signer] = sub(bal[p.signer], p.amt)
				tunnels = append(tunnels, nt)
				if p.amt != (amt3{}) {
					v.Count("create_with_deposit", 1)
				}
			case "deposit":
				if t == nil {
					v.Failf("C17/deposit-no-tunnel", "deposit to non-existent tunnel %d accepted", p.tid)
					return false
				}
				t.dep[p.signer] = add(t.dep[p.signer], p.amt)
				bal[p.signer] = sub(bal[p.signer], p.amt)
			case "withdraw":
				if t == nil {
					v.Failf("C17/withdraw-no-tunnel", "withdrawal from non-existent tunnel %d accepted", p.tid)
					return false
				}
				if !allLE(p.amt, t.dep[p.signer]) {
					v.Failf("C17/overdraw", "user%d withdrew %v from tunnel %d but their own deposit is %v", p.signer, p.amt, p.tid, t.dep[p.signer])
					return false
				}
				before := covers(t.total(), curMin)
				t.dep[p.signer] = sub(t.dep[p.signer], p.amt)
				bal[p.signer] = add(bal[p.signer], p.amt)
				if before && !covers(t.total(), curMin) {
					crossings++
					if t.active {
						crossingsActive++
					}
				}
				if !covers(t.total(), curMin) {
					if t.active && t.grand {
						t.lenient = true // it was below the (raised) minimum before this withdrawal already
					}
					t.active = false // statement: deactivated when a withdrawal takes it below the minimum
				}
			case "activate":
				if t == nil {
					v.Failf("C17/activate-no-tunnel", "activation of non-existent tunnel %d accepted", p.tid)
					return false
				}
				if t.creator != p.signer {
					v.Failf("C17/activate-by-stranger", "tunnel %d of user%d activated by user%d", p.tid, t.creator, p.signer)
					return false
				}
				if !covers(t.total(), curMin) {
					v.Failf("C17/activate-below-min", "tunnel %d activated with total deposit %v below the minimum %v", p.tid, t.total(), curMin)
					return false
				}
				t.active = true
				v.Count("activations", 1)
			case "deactivate":
				if t != nil {
					if t.creator != p.signer {
						v.Count("deactivate_by_stranger_ok", 1) // not part of the statement
					}
					t.active = false
				}
			case "trigger":
				if t != nil {
					t.sent = true
				}
			case "update":
				if t == nil {
					v.Failf("C17/update-no-tunnel", "update of non-existent tunnel %d accepted", p.tid)
					return false
				}
				if t.creator != p.signer {
					v.Failf("C17/update-by-stranger", "signals/interval of tunnel %d of user%d updated by user%d", p.tid, t.creator, p.signer)
					return false
				}
				if !cfgValid(p.sigs, p.intv) {
					v.Count("update_undocumented_config_accepted", 1) // outside the statement
				}
				// the statement knows three ways for a tunnel to stop being active (deactivate message, withdrawal below
				// the minimum, and - outside it - an unfunded fee payer at end-block); an update is none of them: the
				// reference flag stays as it is
				if t.active {
					updActive++
				} else {
					updInactive++
				}
				if sameSigs(t.sigs, p.sigs) && t.intv == p.intv {
					v.Count("update_noop_config", 1)
				}
				if t.intv != p.intv {
					v.Count("update_interval_changed", 1)
				}
				t.sigs, t.intv = p.sigs, p.intv
			case "fund":
				bal[p.signer] = sub(bal[p.signer], p.amt)
			case "sendmod":
				// not asserted here: the three-ledger equality below decides (module balance == deposits + recorded fees)
				sendAccepted++
				bal[p.signer] = sub(bal[p.signer], p.amt)
				if p.op.Multi == 2 {
					bal[p.signer] = sub(bal[p.signer], p.amt2)
					bal[(p.signer+1)%nUsers] = add(bal[(p.signer+1)%nUsers], p.amt2)
				}
			}
			for _, x := range tunnels {
				if x.depositors() >= 2 {
					twoDepositors = true
				}
			}
		}
		nTx := len(pending)
		pending, txs = nil, nil

		// end block: which tunnels were processed as active (events of the block itself, not of its txs)
		processed := map[uint64]bool{}
		preActive := make([]bool, len(tunnels)) // reference flags after the last tx, before the end-blocker
		for i, t := range tunnels {
			preActive[i] = t.active
		}
		for _, e := range res.Resp.Events {
			switch e.Type {
			case tunneltypes.EventTypeProducePacketFail, tunneltypes.EventTypeProducePacketSuccess, tunneltypes.EventTypeDeactivateTunnel:
				var id uint64
				fmt.Sscan(sim.Attr(e, tunneltypes.AttributeKeyTunnelID), &id)
				processed[id] = true
				if id < 1 || id > uint64(len(tunnels)) {
					continue
				}
				if e.Type == tunneltypes.EventTypeProducePacketSuccess {
					tunnels[id-1].sent = true
				}
				if e.Type == tunneltypes.EventTypeDeactivateTunnel && tunnels[id-1].active {
					tunnels[id-1].active = false // fee payer out of funds: legitimate, not part of the statement
					v.Count("endblock_deactivations", 1)
				}
			}
		}

		// ---- compare the chain with the reference ledger ----
		ctx := ch.Ctx()
		if got := k.GetTunnelCount(ctx); got != uint64(len(tunnels)) {
			v.Failf("C17/tunnel-count", "tunnel count %d, reference %d", got, len(tunnels))
			return false
		}
		minCoins := k.GetParams(ctx).MinDeposit
		activeIdx := map[uint64]bool{}
		for _, id := range k.GetActiveTunnelIDs(ctx) {
			activeIdx[id] = true
			if id < 1 || id > uint64(len(tunnels)) {
				v.Failf("C17/flag-vs-index", "active index contains non-existent tunnel %d", id)
			}
		}
		chainDeps := map[uint64]map[int]amt3{}
		for _, d := range k.GetAllDeposits(ctx) {
			u := userIdx(d.Depositor)
			a, okc := fromCoins(d.Amount)
			if u < 0 || !okc || d.TunnelID < 1 || d.TunnelID > uint64(len(tunnels)) {
				v.Failf("C17/deposit-record", "unexpected deposit record %v", d)
				return false
			}
			if chainDeps[d.TunnelID] == nil {
				chainDeps[d.TunnelID] = map[int]amt3{}
			}
			chainDeps[d.TunnelID][u] = add(chainDeps[d.TunnelID][u], a)
		}
		var allDeposits amt3
		for i, t := range tunnels {
			id := uint64(i + 1)
			ct, err := k.GetTunnel(ctx, id)
			if err != nil {
				v.Failf("C17/tunnel-missing", "tunnel %d: %v", id, err)
				return false
			}
			if ct.Creator != ch.Users[t.creator].Addr.String() {
				v.Failf("C17/creator", "tunnel %d creator %s, reference user%d", id, ct.Creator, t.creator)
			}
			total, okc := fromCoins(ct.TotalDeposit)
			var sum amt3
			for u := 0; u < nUsers; u++ {
				sum = add(sum, chainDeps[id][u])
			}
			if !okc || total != sum {
				v.Failf("C17/total-vs-sum", "tunnel %d TotalDeposit %s but its deposit records sum to %v", id, ct.TotalDeposit, sum)
			}
			// the same ledger as a user reads it: the deposits query of this tunnel lists exactly this tunnel's records
			if qr, qerr := tunnelkeeper.NewQueryServer(k).Deposits(ctx, &tunneltypes.QueryDepositsRequest{TunnelId: id}); qerr != nil {
				v.Failf("C17/deposits-query", "tunnel %d: deposits query failed: %v", id, qerr)
			} else {
				var qsum amt3
				for _, d := range qr.Deposits {
					a, okq := fromCoins(d.Amount)
					if d.TunnelID != id || !okq {
						v.Failf("C17/deposits-query", "deposits query of tunnel %d lists %v", id, d)
						continue
					}
					if u := userIdx(d.Depositor); u < 0 || a != chainDeps[id][u] {
						v.Failf("C17/deposits-query", "deposits query of tunnel %d lists %v, the deposit record says %v", id, d, chainDeps[id])
					}
					qsum = add(qsum, a)
				}
				if qsum != sum {
					v.Failf("C17/deposits-query", "deposits query of tunnel %d sums to %v, its deposit records to %v (TotalDeposit %s)", id, qsum, sum, ct.TotalDeposit)
				}
				v.Count("deposit_queries", 1)
			}
			for u := 0; u < nUsers; u++ {
				if chainDeps[id][u] != t.dep[u] {
					v.Failf("C17/deposit-record", "tunnel %d records deposit %v for user%d, reference (deposited - withdrawn) %v", id, chainDeps[id][u], u, t.dep[u])
				}
			}
			allDeposits = add(allDeposits, t.total())
			if ct.IsActive != activeIdx[id] {
				v.Failf("C17/flag-vs-index", "tunnel %d IsActive=%v but in active index=%v", id, ct.IsActive, activeIdx[id])
			}
			if t.grand && (!ct.IsActive || covers(t.total(), curMin)) {
				t.grand = false
			}
			if ct.IsActive && !t.active && t.lenient {
				t.active = true
				v.Count("withdrawal_from_tunnel_already_below_raised_min_kept_active", 1)
			}
			t.lenient = false
			if ct.IsActive && !ct.TotalDeposit.IsAllGTE(minCoins) && !t.grand {
				v.Failf("C17/active-below-min", "tunnel %d is active with total deposit %s below the minimum %s", id, ct.TotalDeposit, minCoins)
			}
			if ct.IsActive && !t.active {
				if !covers(t.total(), curMin) {
					v.Failf("C17/active-below-min", "tunnel %d is active with reference total %v below the minimum %v", id, t.total(), curMin)
				}
				v.Failf("C17/active-unexpected", "tunnel %d is flagged active without a successful activation by its creator (or after a deactivation)", id)
			}
			if !ct.IsActive && t.active {
				v.Count("inactive_unexpected", 1)
				t.active = false
			}
			// configuration: what the create message said, replaced only by a successful update of the creator
			var csigs []sigDev
			for _, sd := range ct.SignalDeviations {
				csigs = append(csigs, sigDev{sd.SignalID, sd.SoftDeviationBPS, sd.HardDeviationBPS})
			}
			if ct.Interval != t.intv || !sameSigs(csigs, t.sigs) {
				sig := "C17/tunnel-config"
				if t.strangerUpdate {
					sig = "C17/update-by-stranger-left-trace"
				}
				v.Failf(sig, "tunnel %d has interval %d signals %v at height %d, reference (create + successful updates by the creator) interval %d signals %v", id, ct.Interval, csigs, res.Height, t.intv, t.sigs)
			}
			t.strangerUpdate = false
			// the record of what was last sent changes only by sending
			if lp, lerr := k.GetLatestPrices(ctx, id); lerr != nil {
				v.Failf("C17/latest-prices-missing", "tunnel %d: %v", id, lerr)
			} else if !t.sent && (len(lp.Prices) != 0 || lp.LastInterval != 0) {
				v.Failf("C17/latest-prices-changed", "tunnel %d never sent a packet but its latest-prices record is %v", id, lp)
			}
			// everything else in the tunnel record is immutable in this world (no packet is ever sent)
			ct.IsActive, ct.TotalDeposit, ct.Interval, ct.SignalDeviations = false, nil, 0, nil
			bz, merr := cdc.Marshal(&ct)
			if merr != nil {
				v.Failf("harness", "marshal tunnel: %v", merr)
				return false
			}
			if t.immutable != nil && !t.sent && !bytes.Equal(bz, t.immutable) {
				v.Failf("C17/tunnel-record-changed", "tunnel %d record (other than deposit/active) changed at height %d (txs=%d, any success=%v)", id, res.Height, nTx, anySuccess)
			}
			t.immutable = bz
		}
		for u := 0; u < nUsers; u++ {
			got, okc := fromCoins(ch.App.BankKeeper.GetAllBalances(ctx, ch.Users[u].Addr))
			if !okc || got != bal[u] {
				v.Failf("C17/user-balance", "user%d balance %v, reference (genesis - deposited + withdrawn) %v", u, got, bal[u])
			}
		}
		modBal, okc := fromCoins(ch.App.BankKeeper.GetAllBalances(ctx, moduleAddr))
		if !okc || !allLE(allDeposits, modBal) {
			v.Failf("C17/unbacked", "tunnel module account holds %v, less than all deposits %v", modBal, allDeposits)
		}
		fees, okf := fromCoins(k.GetTotalFees(ctx).Total())
		if !okf || modBal != add(allDeposits, fees) {
			v.Failf("C17/module-balance", "tunnel module account holds %v, deposits %v + recorded packet fees %v", modBal, allDeposits, fees)
		}
		// processed as active exactly when flagged active (checked last so that a wrong flag or index is
		// reported under its own signature first)
		for i := range tunnels {
			id := uint64(i + 1)
			if processed[id] && !preActive[i] {
				v.Failf("C17/processed-inactive", "tunnel %d processed at end-block of height %d but it was not flagged active", id, res.Height)
			}
			if preActive[i] && !processed[id] && !tunnels[i].sent {
				v.Failf("C17/active-not-processed", "tunnel %d flagged active but not processed at end-block of height %d", id, res.Height)
			}
			delete(processed, id)
		}
		for id := range processed {
			v.Failf("C17/processed-inactive", "non-existent tunnel %d processed at end-block of height %d", id, res.Height)
		}
		return v.Violation == ""
	}

	for _, o := range c.Ops {
		if o.K == "end" {
			if !flush(o.Dt) {
				return v
			}
			continue
		}
		if o.K == "reimport" {
			if !doReimport(o.Dt) {
				return v
			}
			continue
		}
		if o.K == "badimport" {
			if len(txs) > 0 && !flush(1) {
				return v
			}
			modBal := ch.App.BankKeeper.GetAllBalances(ch.Ctx(), moduleAddr)
			var recorded amt3
			for _, t := range tunnels {
				recorded = add(recorded, t.total())
			}
			if modBal.IsZero() || recorded == (amt3{}) {
				inapplicable++
				continue
			}
			ierr := ch.TryImportMutated(func(state map[string]json.RawMessage) error {
				if o.Mode == "norecords" {
					// the deposit records of one tunnel are lost (its TotalDeposit stays) and the module account holds
					// correspondingly less: the tunnel's total is no longer the sum of its depositors' records
					for d := 0; d < len(tunnels); d++ {
						if id := (o.T+d)%len(tunnels) + 1; tunnels[id-1].total() != (amt3{}) {
							return c17DropDepositRecords(state, moduleAddr.String(), uint64(id))
						}
					}
					return fmt.Errorf("no tunnel with deposits")
				}
				return c17DropModuleBalance(state, moduleAddr.String(), o.Mode == "minus1")
			})
			switch {
			case ierr == nil:
				v.Failf("C17/unbacked-genesis-accepted", "a genesis whose tunnel section records deposits of %v while the tunnel module account holds %s less than that (%s) was imported", recorded, map[string]string{"minus1": "one unit", "zero": "everything", "norecords": "one tunnel's deposits (whose records were dropped as well)"}[o.Mode], o.Mode)
				return v
			case strings.HasPrefix(ierr.Error(), "harness:"):
				v.Failf("harness", "badimport: %v", ierr)
				return v
			}
			v.Count("unbacked_genesis_refused", 1)
			badImports++
			continue
		}
		if o.K == "minparams" {
			if len(txs) > 0 && !flush(1) {
				return v
			}
			newMin := curMin
			switch o.Mode {
			case "above":
				// just above the total of the next active tunnel (in the first denom that takes part, else uband)
				newMin = curMin
				for d := 0; d < len(tunnels); d++ {
					if t := tunnels[(o.T+d)%len(tunnels)]; t.active {
						tot := t.total()
						di := 0
						for i := range curMin {
							if curMin[i] > 0 {
								di = i
								break
							}
						}
						newMin[di] = tot[di] + 1
						break
					}
				}
			case "double":
				for i := range newMin {
					newMin[i] *= 2
				}
				if newMin == (amt3{}) {
					newMin[0] = 1
				}
			case "half":
				for i := range newMin {
					newMin[i] /= 2
				}
			case "swap":
				newMin[0], newMin[1] = curMin[1], curMin[0]
			default:
				newMin = c.Min
			}
			np := k.GetParams(ch.Ctx())
			np.MinDeposit = toCoins(newMin)
			passed, gres, gerr := ch.GovExec(tunneltypes.NewMsgUpdateParams(sim.GovAuthority(), np))
			if gerr != nil && len(gres) == 1 && strings.Contains(gerr.Error(), "submit proposal failed") {
				passed, gerr = false, nil
				v.Count("minparams_refused", 1)
			}
			if gerr != nil {
				v.Failf("C17/finalize", "governance change of the minimum deposit to %v failed: %v", newMin, gerr)
				return v
			}
			if passed {
				v.Count("minparams_passed", 1)
				for _, t := range tunnels {
					if t.active && !covers(t.total(), newMin) {
						t.grand = true
						v.Count("active_tunnels_below_raised_min", 1)
					}
				}
				if newMin != curMin {
					minChanges++
				}
				curMin = newMin
			}
			// the blocks of the governance run are not compared one by one; the next block is
			if !flush(1) {
				return v
			}
			continue
		}
		// late-bound tunnel
		var tid uint64
		var t *refTunnel
		switch {
		case o.K == "create", o.K == "sendmod":
		case o.Ghost || len(tunnels) == 0:
			if len(tunnels) == 0 && !o.Ghost {
				inapplicable++
				continue
			}
			tid = uint64(len(tunnels) + 1)
		default:
			tid = uint64(1 + o.T%len(tunnels))
			t = tunnels[tid-1]
		}
		if o.K == "update" && t != nil && o.Seek {
			// late-bound: the next tunnel that is active according to the reference
			for j := 0; j < len(tunnels); j++ {
				if cand := (int(tid) - 1 + j) % len(tunnels); tunnels[cand].active {
					tid, t = uint64(cand+1), tunnels[cand]
					break
				}
			}
		}
		signer := o.U % nUsers
		if o.K == "activate" || o.K == "deactivate" || o.K == "trigger" || o.K == "update" {
			if t != nil {
				signer = (t.creator + o.U) % nUsers
			}
		}
		if o.K == "withdraw" && t != nil && o.Seek {
			// late-bound withdrawer: the next account that has a deposit in this tunnel
			for j := 0; j < nUsers; j++ {
				if t.dep[(signer+j)%nUsers] != (amt3{}) {
					signer = (signer + j) % nUsers
					break
				}
			}
		}
		// late-bound amount
		var amt amt3
		if o.K == "create" || o.K == "deposit" || o.K == "withdraw" {
			var base amt3
			switch o.Mode {
			case "min":
				base = curMin
			case "bal":
				base = bal[signer]
			case "gap":
				if t != nil {
					if o.K == "withdraw" {
						base = sub(t.total(), curMin) // the excess over the minimum: +1 crosses it
						// prefer a withdrawer who can afford it (late-bound, from the reference ledger only)
						for j := 0; j < nUsers; j++ {
							cand, fits := (signer+j)%nUsers, true
							for i := range base {
								if o.Mask&(1<<i) != 0 && base[i]+o.D[i] > t.dep[cand][i] {
									fits = false
								}
							}
							if fits {
								signer = cand
								break
							}
						}
					} else {
						base = sub(curMin, t.total()) // what is missing to reach the minimum
					}
				}
			case "own":
				if t != nil {
					base = t.dep[signer]
				}
			case "other":
				if t != nil {
					base = t.dep[(signer+1)%nUsers]
				}
			case "total":
				if t != nil {
					base = t.total()
				}
			}
			if o.Mode != "none" {
				for i := range amt {
					if o.Mask&(1<<i) != 0 {
						amt[i] = base[i] + o.D[i]
						if amt[i] < 0 {
							amt[i] = 0
						}
					}
				}
			}
			if amt == (amt3{}) && o.K != "create" {
				inapplicable++
				continue
			}
		}
		who := ch.Users[signer]
		var msg sdk.Msg
		var cfgSigs []sigDev
		var cfgIntv uint64
		var amt2 amt3
		switch o.K {
		case "create":
			if len(tunnels)+countCreates(pending) >= 3 {
				inapplicable++
				continue
			}
			cfgSigs, cfgIntv = createSigs(o), o.Intv
			sds := toSignalDeviations(cfgSigs)
			var m *tunneltypes.MsgCreateTunnel
			var merr error
			if o.Route == "ibc" {
				m, merr = tunneltypes.NewMsgCreateIBCTunnel(sds, o.Intv, toCoins(amt), who.Addr.String())
			} else {
				m, merr = tunneltypes.NewMsgCreateTSSTunnel(sds, o.Intv, "dest-chain", "0xdestination", feedstypes.ENCODER_FIXED_POINT_ABI, toCoins(amt), who.Addr.String())
			}
			if merr != nil {
				v.Failf("harness", "build create msg: %v", merr)
				return v
			}
			msg = m
		case "deposit":
			msg = tunneltypes.NewMsgDepositToTunnel(tid, toCoins(amt), who.Addr.String())
		case "withdraw":
			msg = tunneltypes.NewMsgWithdrawFromTunnel(tid, toCoins(amt), who.Addr.String())
		case "activate":
			msg = tunneltypes.NewMsgActivate(tid, who.Addr.String())
		case "deactivate":
			msg = tunneltypes.NewMsgDeactivate(tid, who.Addr.String())
		case "trigger":
			msg = tunneltypes.NewMsgTriggerTunnel(tid, who.Addr.String())
		case "update":
			cfgIntv = o.Intv
			if t != nil {
				cfgSigs = updateSigs(o, t.sigs)
				if o.Keep {
					cfgIntv = t.intv
				}
			} else {
				cfgSigs = updateSigs(o, createSigs(o))
			}
			msg = tunneltypes.NewMsgUpdateSignalsAndInterval(tid, toSignalDeviations(cfgSigs), cfgIntv, who.Addr.String())
		case "sendmod":
			for i := range amt {
				if o.Mask&(1<<i) == 0 {
					continue
				}
				switch o.Mode {
				case "one":
					amt[i] = 1
				case "bal":
					amt[i] = bal[signer][i]
				default:
					amt[i] = o.D[i]
				}
				if amt[i] > bal[signer][i] { // affordable, so that the destination is the only thing in question
					amt[i] = bal[signer][i]
				}
				if amt[i] < 0 {
					amt[i] = 0
				}
			}
			if amt == (amt3{}) {
				inapplicable++
				continue
			}
			switch o.Multi {
			case 0:
				msg = banktypes.NewMsgSend(who.Addr, moduleAddr, toCoins(amt))
			case 1:
				msg = banktypes.NewMsgMultiSend(banktypes.NewInput(who.Addr, toCoins(amt)), []banktypes.Output{banktypes.NewOutput(moduleAddr, toCoins(amt))})
			default:
				// a second, ordinary recipient in the same message (1 unit of the first denom the sender still has)
				for i := range amt2 {
					if bal[signer][i]-amt[i] >= 1 {
						amt2[i] = 1
						break
					}
				}
				if amt2 == (amt3{}) {
					msg = banktypes.NewMsgMultiSend(banktypes.NewInput(who.Addr, toCoins(amt)), []banktypes.Output{banktypes.NewOutput(moduleAddr, toCoins(amt))})
					o.Multi = 1
				} else {
					msg = banktypes.NewMsgMultiSend(banktypes.NewInput(who.Addr, toCoins(add(amt, amt2))),
						[]banktypes.Output{banktypes.NewOutput(moduleAddr, toCoins(amt)), banktypes.NewOutput(ch.Users[(signer+1)%nUsers].Addr, toCoins(amt2))})
				}
			}
		case "fund":
			if t == nil {
				inapplicable++
				continue
			}
			ct, gerr := k.GetTunnel(ch.Ctx(), tid)
			if gerr != nil {
				inapplicable++
				continue
			}
			amt = amt3{c.Fee + o.D[0], 0, 0}
			if amt[0] <= 0 {
				amt[0] = 1
			}
			msg = banktypes.NewMsgSend(who.Addr, sdk.MustAccAddressFromBech32(ct.FeePayer), toCoins(amt))
		default:
			inapplicable++
			continue
		}
		pending = append(pending, pendTx{op: o, signer: signer, tid: tid, amt: amt, sigs: cfgSigs, intv: cfgIntv, amt2: amt2})
		txs = append(txs, ch.SignTx(who, msg))
		if !o.Hold {
			if !flush(1) {
				return v
			}
		}
	}
	if !flush(1) || !flush(1) {
		return v
	}

	// ---- classification ----
	v.Count("inapplicable_ops", int64(inapplicable))
	v.Count("tunnels", int64(len(tunnels)))
	v.Count("crossings", int64(crossings))
	v.Count("crossings_active", int64(crossingsActive))
	if sendRefused > 0 {
		v.Class("bank-send-to-module-account-refused")
	}
	if sendAccepted > 0 {
		v.Class("bank-send-to-module-account-accepted")
	}
	if reimports > 0 {
		v.Class("genesis-reimport")
	}
	if reimpTSS > 0 {
		v.Class("genesis-reimport-with-active-tss-tunnel")
	}
	if reimpIBC > 0 {
		v.Class("genesis-reimport-with-active-ibc-tunnel")
	}
	if reimpTSS > 0 && reimpIBC > 0 {
		v.Class("genesis-reimport-with-active-tss-and-ibc-tunnel")
	}
	v.Count("updates_on_active", int64(updActive))
	v.Count("updates_on_inactive", int64(updInactive))
	v.Count("updates_by_non_creator_refused", int64(updNonCreator))
	if updActive > 0 {
		v.Class("update-on-active-tunnel")
	}
	if updInactive > 0 {
		v.Class("update-on-inactive-tunnel")
	}
	if updNonCreator > 0 {
		v.Class("update-by-non-creator")
	}
	if twoDepositors {
		v.Class("two-depositors")
	}
	if minChanges > 0 {
		v.Class("min-deposit-changed-by-governance")
	}
	if badImports > 0 {
		v.Class("unbacked-genesis-import-attempted")
	}
	if crossings > 0 {
		v.Class("withdraw-crosses-min")
	}
	if crossingsActive > 0 {
		v.Class("withdraw-crosses-min-while-active")
	}
	nMin := 0
	for _, m := range curMin {
		if m > 0 {
			nMin++
		}
	}
	v.Class(fmt.Sprintf("min-denoms-%d", nMin))
	v.Class(fmt.Sprintf("tunnels-%d", len(tunnels)))
	if c.Fee > 0 {
		v.Class("packet-fee")
	}
	// de-duplicate class labels (a label may have been added once per rejected tx)
	sort.Strings(v.Classes)
	out := v.Classes[:0]
	for i, s := range v.Classes {
		if i == 0 || s != v.Classes[i-1] {
			out = append(out, s)
		}
	}
	v.Classes = out
	v.NonTrivial = twoDepositors && crossings >= 1
	return v
}

func countCreates(p []pendTx) int {
	n := 0
	for _, x := range p {
		if x.op.K == "create" {
			n++
		}
	}
	return n
}

func TestC17(t *testing.T) { pbt.Check(t, "C17", genC17, runC17) }

// c17DropModuleBalance edits an exported genesis: the bank balance entry of addr is removed (or reduced by one unit of
// its first denom) and the bank supply is lowered by the same coins, so that the bank section stays self-consistent.
func c17DropModuleBalance(state map[string]json.RawMessage, addr string, oneUnit bool) error {
	type coin struct {
		Denom  string `json:"denom"`
		Amount string `json:"amount"`
	}
	var bank map[string]json.RawMessage
	if err := json.Unmarshal(state["bank"], &bank); err != nil {
		return err
	}
	var balances []struct {
		Address string `json:"address"`
		Coins   []coin `json:"coins"`
	}
	if err := json.Unmarshal(bank["balances"], &balances); err != nil {
		return err
	}
	var supply []coin
	if err := json.Unmarshal(bank["supply"], &supply); err != nil {
		return err
	}
	removed := map[string]*big.Int{}
	found := false
	out := balances[:0]
	for _, b := range balances {
		if b.Address != addr {
			out = append(out, b)
			continue
		}
		found = true
		if oneUnit && len(b.Coins) > 0 {
			x, ok := new(big.Int).SetString(b.Coins[0].Amount, 10)
			if !ok || x.Sign() <= 0 {
				return fmt.Errorf("bad amount %q", b.Coins[0].Amount)
			}
			removed[b.Coins[0].Denom] = big.NewInt(1)
			x.Sub(x, big.NewInt(1))
			if x.Sign() == 0 {
				b.Coins = b.Coins[1:]
			} else {
				b.Coins[0].Amount = x.String()
			}
			if len(b.Coins) > 0 {
				out = append(out, b)
			}
			continue
		}
		for _, cn := range b.Coins {
			x, ok := new(big.Int).SetString(cn.Amount, 10)
			if !ok {
				return fmt.Errorf("bad amount %q", cn.Amount)
			}
			removed[cn.Denom] = x
		}
	}
	if !found {
		return fmt.Errorf("no balance entry for %s", addr)
	}
	var newSupply []coin
	for _, cn := range supply {
		if r, ok := removed[cn.Denom]; ok {
			x, ok2 := new(big.Int).SetString(cn.Amount, 10)
			if !ok2 || x.Cmp(r) < 0 {
				return fmt.Errorf("supply of %s below the removed amount", cn.Denom)
			}
			x.Sub(x, r)
			if x.Sign() == 0 {
				continue
			}
			cn.Amount = x.String()
		}
		newSupply = append(newSupply, cn)
	}
	var err error
	if bank["balances"], err = json.Marshal(out); err != nil {
		return err
	}
	if bank["supply"], err = json.Marshal(newSupply); err != nil {
		return err
	}
	if state["bank"], err = json.Marshal(bank); err != nil {
		return err
	}
	return nil
}

// c17DropDepositRecords edits an exported genesis: every deposit record of tunnel id is removed from the tunnel section
// (the tunnel keeps its total_deposit) and the same coins are taken from the module account's bank balance and the supply.
func c17DropDepositRecords(state map[string]json.RawMessage, addr string, id uint64) error {
	var tun map[string]json.RawMessage
	if err := json.Unmarshal(state["tunnel"], &tun); err != nil {
		return err
	}
	var deps []map[string]json.RawMessage
	if err := json.Unmarshal(tun["deposits"], &deps); err != nil {
		return err
	}
	removed := map[string]*big.Int{}
	var keep []map[string]json.RawMessage
	for _, d := range deps {
		var tid string
		if err := json.Unmarshal(d["tunnel_id"], &tid); err != nil {
			return err
		}
		if tid != fmt.Sprint(id) {
			keep = append(keep, d)
			continue
		}
		var amt []struct{ Denom, Amount string }
		if err := json.Unmarshal(d["amount"], &amt); err != nil {
			return err
		}
		for _, cn := range amt {
			x, ok := new(big.Int).SetString(cn.Amount, 10)
			if !ok {
				return fmt.Errorf("bad amount %q", cn.Amount)
			}
			if removed[cn.Denom] == nil {
				removed[cn.Denom] = new(big.Int)
			}
			removed[cn.Denom].Add(removed[cn.Denom], x)
		}
	}
	if len(removed) == 0 {
		return fmt.Errorf("tunnel %d has no deposit records in the export", id)
	}
	if keep == nil {
		keep = []map[string]json.RawMessage{}
	}
	var err error
	if tun["deposits"], err = json.Marshal(keep); err != nil {
		return err
	}
	if state["tunnel"], err = json.Marshal(tun); err != nil {
		return err
	}
	return c17ReduceBank(state, addr, removed)
}

// c17ReduceBank lowers the bank balance of addr and the supply by the given coins.
func c17ReduceBank(state map[string]json.RawMessage, addr string, removed map[string]*big.Int) error {
	type coin struct {
		Denom  string `json:"denom"`
		Amount string `json:"amount"`
	}
	var bank map[string]json.RawMessage
	if err := json.Unmarshal(state["bank"], &bank); err != nil {
		return err
	}
	var balances []struct {
		Address string `json:"address"`
		Coins   []coin `json:"coins"`
	}
	if err := json.Unmarshal(bank["balances"], &balances); err != nil {
		return err
	}
	var supply []coin
	if err := json.Unmarshal(bank["supply"], &supply); err != nil {
		return err
	}
	sub := func(cs []coin) ([]coin, error) {
		var out []coin
		for _, cn := range cs {
			if r, ok := removed[cn.Denom]; ok {
				x, ok2 := new(big.Int).SetString(cn.Amount, 10)
				if !ok2 || x.Cmp(r) < 0 {
					return nil, fmt.Errorf("%s: %s below the removed amount %s", cn.Denom, cn.Amount, r)
				}
				x.Sub(x, r)
				if x.Sign() == 0 {
					continue
				}
				cn.Amount = x.String()
			}
			out = append(out, cn)
		}
		return out, nil
	}
	found := false
	out := balances[:0]
	for _, b := range balances {
		if b.Address == addr {
			found = true
			cs, err := sub(b.Coins)
			if err != nil {
				return err
			}
			if len(cs) == 0 {
				continue
			}
			b.Coins = cs
		}
		out = append(out, b)
	}
	if !found {
		return fmt.Errorf("no balance entry for %s", addr)
	}
	newSupply, err := sub(supply)
	if err != nil {
		return err
	}
	if bank["balances"], err = json.Marshal(out); err != nil {
		return err
	}
	if bank["supply"], err = json.Marshal(newSupply); err != nil {
		return err
	}
	state["bank"], err = json.Marshal(bank)
	return err
}
