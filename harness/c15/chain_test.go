package c15

import (
	"fmt"
	"sort"
	"testing"
	"time"

	"pgregory.net/rapid"

	sdk "github.com/cosmos/cosmos-sdk/types"

	feedstypes "github.com/bandprotocol/chain/v3/x/feeds/types"
	oracletypes "github.com/bandprotocol/chain/v3/x/oracle/types"

	"verif/harness/gen"
	"verif/harness/pbt"
	"verif/harness/ref"
	"verif/harness/sim"
)

// TestC15Chain: timelines of activation / request / report / price submission / block times on the real
// application; after every block the status of every validator is compared (one-directionally) with the
// reference predicates of ref/miss.go evaluated on a model timeline kept by the harness.

// ---- case --------------------------------------------------------------------------------------------

type c15Op struct {
	K      string `json:"k"`                // act | req | rep | sub | end
	Val    int    `json:"val,omitempty"`    // validator (late-bound, see Mode)
	Mode   int    `json:"mode,omitempty"`   // act: 0 = validator Val mod n, 1 = Val-th inactive validator
	Ask    int    `json:"ask,omitempty"`    // req: ask = 1 + Ask mod (#active)
	Min    int    `json:"min,omitempty"`    // req: min = 1 + Min mod ask
	Req    int    `json:"req,omitempty"`    // rep: Req-th open request
	Sigs   int    `json:"sigs,omitempty"`   // sub: bit mask over the current feeds (0 => all)
	Status int    `json:"status,omitempty"` // sub: 0 available, 1 unavailable, 2 unsupported
	Dt     int    `json:"dt,omitempty"`     // end: seconds
	Ms     int    `json:"ms,omitempty"`     // end: plus milliseconds (block times carry a sub-second part, as CometBFT's do)
	Aim    string `json:"aim,omitempty"`    // end: choose dt so that the block lands on a boundary (+Delta)
	Delta  int    `json:"delta,omitempty"`
	// sub: msg.Timestamp = block time + offset; Off names the offset (c15Offsets), OffR parametrises "rand"
	Off  string `json:"off,omitempty"`
	OffR int    `json:"offr,omitempty"`
	Pos  int    `json:"pos,omitempty"` // end, aim "price-gap": position between claimed+interval and accepted+interval
}

// c15Offsets are the offsets of msg.Timestamp relative to the block time of inclusion, D = AllowableBlockTimeDiscrepancy.
// The last two lie just outside the allowed window and must be rejected.
var c15Offsets = []string{"0", "-1", "+1", "-D", "+D", "-(D-1)", "+(D-1)", "rand", "-(D+1)", "+(D+1)"}

func c15Offset(kind string, r int, d int64) int64 {
	switch kind {
	case "-1":
		return -1
	case "+1":
		return 1
	case "-D":
		return -d
	case "+D":
		return d
	case "-(D-1)":
		return -(d - 1)
	case "+(D-1)":
		return d - 1
	case "rand":
		if r < 0 {
			r = -r
		}
		return -d + int64(r)%(2*d+1)
	case "-(D+1)":
		return -(d + 1)
	case "+(D+1)":
		return d + 1
	}
	return 0
}

func genC15Offset(rt *rapid.T, outside bool) (string, int) {
	if gen.Chance(rt, "off0", 1, 2) {
		return "0", 0
	}
	k := 7
	if outside {
		k = 9
	}
	return c15Offsets[1+gen.Uniform(rt, "offkind", k)], gen.Uniform(rt, "offr", 1000)
}

type c15Signal struct {
	ID     string `json:"id"`
	Factor int64  `json:"factor"` // power = Factor * power step
}

type c15ChainCase struct {
	NVals       int         `json:"nvals"`
	Tokens      []int64     `json:"tokens"`
	InitActive  []bool      `json:"init_active"`
	Diligent    []bool      `json:"diligent"` // validator is driven by the harness to report / submit every block
	Expiration  uint64      `json:"expiration"`
	PenaltySec  int64       `json:"penalty_sec"`
	PenaltyMs   int64       `json:"penalty_ms,omitempty"` // plus milliseconds (the parameter is in nanoseconds)
	Grace       int64       `json:"grace"`
	MinInterval int64       `json:"min_interval"`
	MaxInterval int64       `json:"max_interval"`
	UpdInterval int64       `json:"upd_interval"`
	Cooldown    int64       `json:"cooldown"`
	Discrepancy int64       `json:"discrepancy"`  // AllowableBlockTimeDiscrepancy (0 in old replay files = 60)
	DilOff      []string    `json:"dil_off"`      // per validator: timestamp offset kind of its harness-driven submissions
	DilOffR     []int       `json:"dil_off_rand"` //
	Signals     []c15Signal `json:"signals"`
	Ops         []c15Op     `json:"ops"`
}

const c15PowerStep = 1000

// genC15Ms draws the sub-second part of a block duration: mostly none (whole-second clocks), otherwise values around
// the ends of the second.
func genC15Ms(rt *rapid.T) int {
	if gen.Chance(rt, "subsecond", 3, 5) {
		return 0
	}
	return gen.OneOf(rt, "ms", 1, 100, 200, 500, 800, 900, 999)
}

func genC15Chain(rt *rapid.T) c15ChainCase {
	n := rapid.IntRange(3, 5).Draw(rt, "nvals")
	c := c15ChainCase{NVals: n}
	for i := 0; i < n; i++ {
		c.Tokens = append(c.Tokens, int64(gen.Range(rt, "tok", 1, 40))*1_000_000)
		c.InitActive = append(c.InitActive, gen.Chance(rt, "initact", 8, 10))
		c.Diligent = append(c.Diligent, gen.Chance(rt, "diligent", 3, 10))
		k, r := genC15Offset(rt, false)
		c.DilOff = append(c.DilOff, k)
		c.DilOffR = append(c.DilOffR, r)
	}
	c.Expiration = uint64(gen.Range(rt, "exp", 1, 5))
	c.PenaltySec = gen.OneOf[int64](rt, "penalty", 0, 0, 1, 2, 3, 4, 6, 30, 31, 100, 103, 600, int64(gen.Range(rt, "penalty-any", 0, 600)))
	if gen.Chance(rt, "penalty-subsecond", 1, 6) {
		c.PenaltyMs = gen.OneOf[int64](rt, "penalty-ms", 1, 250, 500, 999)
	}
	c.Grace = gen.OneOf[int64](rt, "grace", 1, 1, 2, 3, 3, 4, 5, 6, 7, 9, 10, 12, 30, 31, 60, int64(gen.Range(rt, "grace-any", 1, 60)))
	c.MinInterval = gen.OneOf[int64](rt, "minint", 1, 2, 3, 4, 6, 10, 30)
	c.MaxInterval = c.MinInterval * gen.OneOf[int64](rt, "maxint", 1, 2, 3, 10, 40)
	c.UpdInterval = gen.OneOf[int64](rt, "upd", 1, 2, 3, 5, 8, 13, 20, 40, 100000, 100000)
	c.Cooldown = 1
	if gen.Chance(rt, "cooldown", 1, 4) {
		c.Cooldown = c.MinInterval
	}
	c.Discrepancy = gen.OneOf[int64](rt, "discrepancy", 1, 2, 3, 5, 10, 10, 30, 60, 60)
	nsig := gen.Pick(rt, "nsig", 5, 3, 2) + 1
	for i := 0; i < nsig; i++ {
		c.Signals = append(c.Signals, c15Signal{ID: fmt.Sprintf("CS:S%d-USD", i), Factor: gen.OneOf[int64](rt, "factor", 1, 1, 2, 3, 4, 10, 50)})
	}
	nops := rapid.IntRange(25, 110).Draw(rt, "nops")
	for i := 0; i < nops; i++ {
		switch gen.Pick(rt, "op", 9, 10, 12, 22, 40) {
		case 0:
			c.Ops = append(c.Ops, c15Op{K: "act", Val: gen.Uniform(rt, "val", n), Mode: gen.Pick(rt, "mode", 1, 2)})
			if gen.Chance(rt, "act-aim", 1, 2) {
				// re-activation aimed at the end of the penalty period
				c.Ops = append(c.Ops, c15Op{K: "end", Dt: 1, Aim: "penalty", Delta: gen.Range(rt, "delta", -1, 1), Ms: genC15Ms(rt)})
			}
		case 1:
			c.Ops = append(c.Ops, c15Op{K: "req", Ask: gen.Uniform(rt, "ask", n), Min: gen.Uniform(rt, "min", n)})
		case 2:
			c.Ops = append(c.Ops, c15Op{K: "rep", Req: gen.Uniform(rt, "req", 4), Val: gen.Uniform(rt, "val", n)})
		case 3:
			sigs := 0
			if gen.Chance(rt, "partial", 1, 2) {
				sigs = gen.Uniform(rt, "sigs", 8)
			}
			off, offr := genC15Offset(rt, true)
			c.Ops = append(c.Ops, c15Op{K: "sub", Val: gen.Uniform(rt, "val", n), Sigs: sigs, Status: gen.Pick(rt, "status", 6, 1, 1), Off: off, OffR: offr})
		default:
			o := c15Op{K: "end", Dt: gen.OneOf(rt, "dt", 0, 0, 1, 1, 1, 1, 3, 3, 3, 30, 100, 1000), Ms: genC15Ms(rt)}
			if gen.Chance(rt, "aim", 1, 4) {
				o.Aim = gen.OneOf(rt, "aimkind", "grace-act", "grace-upd", "price", "price", "price-gap", "price-gap")
				o.Val = gen.Uniform(rt, "val", n)
				o.Sigs = gen.Uniform(rt, "sig", 3)
				o.Delta = gen.Range(rt, "delta", -1, 1)
				o.Pos = gen.Uniform(rt, "pos", 7)
			}
			c.Ops = append(c.Ops, o)
		}
	}
	return c
}

// ---- model -------------------------------------------------------------------------------------------

// c15Price: ts/h = block time and height at which the chain accepted the submission (what the reference uses);
// claimed = the msg.Timestamp the validator put into it (only used to aim block times).
type c15Price struct{ ts, h, claimed int64 }

type c15Val struct {
	active     bool
	since      int64 // time of the last status change (unix seconds, as the feeds clocks read it)
	sinceMs    int64 // the same in unix milliseconds (the oracle module compares full-precision times)
	everDeact  bool
	actHeight  int64
	prices     map[string]c15Price // last accepted submission per signal
	clean      bool                // reported every request in time and had a fresh price for every feed at every block end
	everActive bool
}

type c15Req struct {
	id       uint64
	h, t     int64
	tMs      int64 // block time of the request in unix milliseconds
	chosen   []int
	sent     map[int]bool // a well-formed report was sent in time (model)
	accepted map[int]bool // ... and the chain accepted it
}

type c15Meta struct {
	kind string
	v    int
	req  *c15Req
	sigs []string
	// prediction for statistics
	predictAccept bool
	off           string // sub: offset kind
	claimed       int64  // sub: msg.Timestamp
	outside       bool   // sub: the offset lies outside the allowed discrepancy
}

func runC15Chain(c c15ChainCase) *pbt.Verdict {
	v := &pbt.Verdict{}
	n := c.NVals
	if n < 1 || len(c.Tokens) < n || len(c.InitActive) < n || len(c.Diligent) < n || len(c.Signals) == 0 {
		v.Failf("harness", "malformed case")
		return v
	}
	vals := make([]sim.ValSpec, n)
	for i := range vals {
		vals[i] = sim.ValSpec{Tokens: c.Tokens[i]}
	}
	op := oracletypes.DefaultParams()
	op.ExpirationBlockCount = c.Expiration
	op.InactivePenaltyDuration = uint64(c.PenaltySec)*uint64(time.Second) + uint64(c.PenaltyMs)*uint64(time.Millisecond) // the parameter is in nanoseconds
	fp := feedstypes.DefaultParams()
	fp.GracePeriod = c.Grace
	fp.MinInterval = c.MinInterval
	fp.MaxInterval = c.MaxInterval
	fp.PowerStepThreshold = c15PowerStep
	fp.CurrentFeedsUpdateInterval = c.UpdInterval
	fp.CooldownTime = c.Cooldown
	disc := c.Discrepancy
	if disc <= 0 {
		disc = 60
	}
	fp.AllowableBlockTimeDiscrepancy = disc
	var signals []feedstypes.Signal
	for _, s := range c.Signals {
		signals = append(signals, feedstypes.NewSignal(s.ID, s.Factor*c15PowerStep))
	}
	voter := sim.NewAccount("user0")
	ch, err := sim.New(sim.Config{
		NumAccounts: 2, Validators: vals, Oracle: &op, Feeds: &fp,
		FeedsVotes:  []feedstypes.Vote{feedstypes.NewVote(voter.Addr.String(), signals)},
		DataSources: []sim.DSSpec{{Exec: []byte("ds-one-executable-bytes-0123456789abcdef"), Treasury: 1}},
		Scripts:     [][]byte{sim.ScriptAsk([]int{1}, "ok")},
	}, 0)
	if err != nil {
		v.Failf("harness", "sim.New: %v", err)
		return v
	}
	defer ch.Close()

	valIdx := map[string]int{}
	for i, a := range ch.Vals {
		valIdx[a.Val.String()] = i
	}
	vs := make([]*c15Val, n)
	for i := range vs {
		vs[i] = &c15Val{prices: map[string]c15Price{}, clean: true}
	}
	penalty, grace, exp := c.PenaltySec, c.Grace, int64(c.Expiration)
	penaltyMs := c.PenaltySec*1000 + c.PenaltyMs
	offKind := func(k string) string {
		if k == "" {
			return "0"
		}
		return k
	}

	// set-up facts read from the chain: the feed list (ids and intervals; their computation is C07's subject) and
	// the genesis update clock. From here on the update clock is modelled.
	cf := ch.App.FeedsKeeper.GetCurrentFeeds(ch.Ctx())
	updTime, updBlock := cf.LastUpdateTimestamp, cf.LastUpdateBlock
	feeds := cf.Feeds
	if len(feeds) == 0 {
		v.Failf("harness", "no current feeds from genesis votes %v", c.Signals)
		return v
	}

	var open []*c15Req
	classes := map[string]bool{}
	nearDecision := false
	var pend []c15Op

	margin1 := func(m int64) bool { return m >= -1 && m <= 1 }

	flush := func(o c15Op) bool {
		// ---- resolve dt -------------------------------------------------------------------------------
		// Times: the feeds clocks read block times in whole unix seconds (prev, now), the oracle module compares
		// full-precision times (prevMs, nowMs). An aimed block lands its whole-second part on target+Delta and
		// adds the op's milliseconds; the penalty aim works on the millisecond axis.
		prev, prevMs := ch.Time.Unix(), ch.Time.UnixMilli()
		dt := int64(o.Dt)
		durMs := dt*1000 + int64(o.Ms)
		if o.Aim != "" {
			target, ok := int64(0), false
			switch o.Aim {
			case "penalty":
				for _, p := range pend {
					if p.K == "act" {
						if i := c15ResolveAct(p, vs); i >= 0 && !vs[i].active && vs[i].everDeact {
							target, ok = vs[i].since+penalty, true
							if d := vs[i].sinceMs + penaltyMs + int64(o.Delta)*1000 + int64(o.Ms) - prevMs; d >= 0 && d <= 2000_000 {
								durMs = d
								v.Count("aimed_blocks", 1)
							} else {
								v.Count("aim_inapplicable", 1)
							}
							ok = false // resolved on the millisecond axis
						}
						break
					}
				}
			case "grace-act":
				if s := vs[o.Val%n]; s.active {
					target, ok = s.since+grace, true
				}
			case "grace-upd":
				target, ok = updTime+grace, true
			case "price":
				f := feeds[o.Sigs%len(feeds)]
				if p, has := vs[o.Val%n].prices[f.SignalID]; has {
					target, ok = p.ts+f.Interval, true
				}
			case "price-gap":
				// land between (claimed timestamp + interval) and (acceptance block time + interval), +-1
				f := feeds[o.Sigs%len(feeds)]
				if p, has := vs[o.Val%n].prices[f.SignalID]; has && p.claimed != p.ts {
					lo, hi := p.claimed+f.Interval, p.ts+f.Interval
					if lo > hi {
						lo, hi = hi, lo
					}
					switch o.Pos % 7 {
					case 0:
						target = lo - 1
					case 1:
						target = lo
					case 2:
						target = lo + 1
					case 3:
						target = (lo + hi) / 2
					case 4:
						target = hi - 1
					case 5:
						target = hi
					default:
						target = hi + 1
					}
					ok = true
					o.Delta = 0
				}
			}
			if d := (target+int64(o.Delta))*1000 + int64(o.Ms) - prevMs; ok && d >= 0 && d <= 2000_000 {
				durMs = d
				v.Count("aimed_blocks", 1)
			} else if ok || o.Aim != "penalty" {
				v.Count("aim_inapplicable", 1)
			}
		}
		nowMs, h := prevMs+durMs, ch.Height+1
		now := nowMs / 1000
		if nowMs%1000 != 0 {
			v.Count("blocks_with_subsecond_time", 1)
		}
		_ = prev

		// ---- build the transactions ------------------------------------------------------------------------
		var txs [][]byte
		var metas []c15Meta
		pred := make([]bool, n) // predicted activity while walking through the block (late binding only)
		lastTs := make([]map[string]int64, n)
		for i := range vs {
			pred[i] = vs[i].active
			lastTs[i] = map[string]int64{}
			for k, p := range vs[i].prices {
				lastTs[i][k] = p.ts
			}
		}
		addReport := func(r *c15Req, i int) {
			a := ch.Vals[i]
			raw := []oracletypes.RawReport{oracletypes.NewRawReport(1, 0, []byte("x"))}
			txs = append(txs, ch.SignTx(a, oracletypes.NewMsgReportData(oracletypes.RequestID(r.id), raw, a.Val)))
			metas = append(metas, c15Meta{kind: "rep", v: i, req: r})
			r.sent[i] = true
		}
		addSubmit := func(i int, ids []string, status int, off string, offR int) {
			a := ch.Vals[i]
			st := feedstypes.SIGNAL_PRICE_STATUS_AVAILABLE
			price := uint64(1000 + i)
			switch status {
			case 1:
				st, price = feedstypes.SIGNAL_PRICE_STATUS_UNAVAILABLE, 0
			case 2:
				st, price = feedstypes.SIGNAL_PRICE_STATUS_UNSUPPORTED, 0
			}
			off = offKind(off)
			offset := c15Offset(off, offR, disc)
			outside := offset < -disc || offset > disc
			accept := pred[i] && !outside
			var sps []feedstypes.SignalPrice
			for _, id := range ids {
				sps = append(sps, feedstypes.NewSignalPrice(st, id, price))
				if ts, has := lastTs[i][id]; has && now < ts+c.Cooldown {
					accept = false
				}
			}
			if accept {
				for _, id := range ids {
					lastTs[i][id] = now
				}
			}
			txs = append(txs, ch.SignTx(a, feedstypes.NewMsgSubmitSignalPrices(a.Val.String(), now+offset, sps)))
			metas = append(metas, c15Meta{kind: "sub", v: i, sigs: ids, predictAccept: accept, off: off, claimed: now + offset, outside: outside})
		}
		for _, p := range pend {
			switch p.K {
			case "act":
				i := c15ResolveAct(p, vs)
				if i < 0 {
					v.Count("inapplicable_ops", 1)
					continue
				}
				a := ch.Vals[i]
				txs = append(txs, ch.SignTx(a, oracletypes.NewMsgActivate(a.Val)))
				metas = append(metas, c15Meta{kind: "act", v: i})
				if ref.ActivationAllowed(pred[i], vs[i].everDeact, vs[i].sinceMs, penaltyMs, nowMs) != ref.No {
					pred[i] = true
				}
			case "req":
				na := 0
				for _, b := range pred {
					if b {
						na++
					}
				}
				if na == 0 {
					v.Count("inapplicable_ops", 1)
					continue
				}
				ask := 1 + p.Ask%na
				min := 1 + p.Min%ask
				msg := oracletypes.NewMsgRequestData(1, []byte("c"), uint64(ask), uint64(min), "c15",
					sdk.NewCoins(sdk.NewInt64Coin("uband", 1_000_000)), 100_000, 1_000_000, ch.Users[0].Addr, oracletypes.ENCODER_UNSPECIFIED)
				txs = append(txs, ch.SignTx(ch.Users[0], msg))
				metas = append(metas, c15Meta{kind: "req"})
			case "rep":
				if len(open) == 0 {
					v.Count("inapplicable_ops", 1)
					continue
				}
				r := open[p.Req%len(open)]
				var cand []int
				for _, i := range r.chosen {
					if !r.sent[i] {
						cand = append(cand, i)
					}
				}
				if len(cand) == 0 {
					v.Count("inapplicable_ops", 1)
					continue
				}
				addReport(r, cand[p.Val%len(cand)])
			case "sub":
				var ids []string
				for j, f := range feeds {
					if p.Sigs == 0 || p.Sigs&(1<<uint(j)) != 0 {
						ids = append(ids, f.SignalID)
					}
				}
				if len(ids) == 0 {
					for _, f := range feeds {
						ids = append(ids, f.SignalID)
					}
				}
				addSubmit(p.Val%n, ids, p.Status, p.Off, p.OffR)
			}
		}
		// diligent validators: report everything open, submit every feed (unless the cool-down forbids it, in
		// which case the previous price is younger than the cool-down <= every interval)
		for i := 0; i < n; i++ {
			if !c.Diligent[i] || !pred[i] {
				continue
			}
			for _, r := range open {
				for _, j := range r.chosen {
					if j == i && !r.sent[i] {
						addReport(r, i)
					}
				}
			}
			var ids []string
			for _, f := range feeds {
				if ts, has := lastTs[i][f.SignalID]; has && now < ts+c.Cooldown {
					continue // still cooling down: that price is younger than every interval
				}
				ids = append(ids, f.SignalID)
			}
			if len(ids) > 0 {
				dk, dr := "0", 0
				if i < len(c.DilOff) && i < len(c.DilOffR) {
					dk, dr = c.DilOff[i], c.DilOffR[i]
				}
				addSubmit(i, ids, 0, dk, dr)
			}
		}
		pend = nil

		// ---- execute -----------------------------------------------------------------------------------------
		res, err := ch.Block(txs, time.Duration(durMs)*time.Millisecond)
		if err != nil {
			v.Failf("C15/finalize", "block %d failed: %v", h, err)
			return false
		}
		v.Count("blocks", 1)
		v.Count("txs", int64(len(txs)))

		// ---- transactions, in order ------------------------------------------------------------------------------
		for k, m := range metas {
			ok := res.Resp.TxResults[k].Code == 0
			switch m.kind {
			case "act":
				s := vs[m.v]
				allowed := ref.ActivationAllowed(s.active, s.everDeact, s.sinceMs, penaltyMs, nowMs)
				if !s.active && s.everDeact && margin1(now-s.since-penalty) {
					classes[fmt.Sprintf("act:penalty%+d:%v", now-s.since-penalty, ok)] = true
				}
				if early := s.sinceMs + penaltyMs - nowMs; !s.active && s.everDeact && early > 0 && early < 1000 {
					classes[fmt.Sprintf("act:less-than-a-second-early:%v", ok)] = true
					if now-s.since >= penalty {
						classes["act:early-only-by-the-subsecond-part"] = true
					}
				}
				if ok {
					switch allowed {
					case ref.No:
						why := "it was already active"
						if !s.active {
							why = fmt.Sprintf("deactivated at %d ms, penalty %d ms, now %d ms (%d ms too early)", s.sinceMs, penaltyMs, nowMs, s.sinceMs+penaltyMs-nowMs)
						}
						v.Failf("C15/activate-not-eligible", "MsgActivate of val%d succeeded at height %d although %s", m.v, h, why)
						return false
					case ref.Either:
						v.Count("boundary_equal_activate_accepted", 1)
					}
					s.active, s.since, s.sinceMs, s.actHeight, s.everActive = true, now, nowMs, h, true
					s.clean = true // the record "always reported / always fresh" is kept per activation period
					v.Count("activations", 1)
				} else {
					switch allowed {
					case ref.Yes:
						v.Count("converse_mismatch", 1)
						v.Count("converse_mismatch_activate", 1)
					case ref.Either:
						v.Count("boundary_equal_activate_refused", 1)
					default:
						if s.active {
							classes["act:refused-already-active"] = true
						} else {
							classes["act:refused-too-early"] = true
						}
					}
				}
			case "req":
				if !ok {
					v.Count("requests_failed", 1)
					continue
				}
				r := &c15Req{h: h, t: now, tMs: nowMs, sent: map[int]bool{}, accepted: map[int]bool{}}
				for _, e := range res.Resp.TxResults[k].Events {
					if e.Type == "request" {
						fmt.Sscan(sim.Attr(e, "id"), &r.id)
						for _, a := range sim.Attrs(e, "validator") {
							if i, known := valIdx[a]; known {
								r.chosen = append(r.chosen, i)
							}
						}
					}
				}
				if r.id == 0 || len(r.chosen) == 0 {
					v.Failf("harness", "request event without id/validators at height %d", h)
					return false
				}
				open = append(open, r)
				v.Count("requests", 1)
			case "rep":
				m.req.accepted[m.v] = ok
				if !ok {
					v.Count("timely_report_rejected", 1)
				}
			case "sub":
				if ok {
					// the reference clock of a price is the block time at which the chain accepted it, whatever
					// timestamp the validator claimed
					for _, id := range m.sigs {
						vs[m.v].prices[id] = c15Price{ts: now, h: h, claimed: m.claimed}
					}
					v.Count("submissions", 1)
					v.Count("sub_off["+m.off+"]_accepted", 1)
					classes["off:"+m.off+":accepted"] = true
					if m.outside {
						v.Count("offset_outside_accepted", 1)
					}
				} else {
					v.Count("sub_off["+m.off+"]_rejected", 1)
					classes["off:"+m.off+":rejected"] = true
					if m.outside {
						v.Count("offset_outside_rejected", 1)
					}
				}
				if ok != m.predictAccept {
					v.Count("submit_prediction_mismatch", 1)
				}
			}
		}

		// ---- end of block: model ---------------------------------------------------------------------------------
		if h%c.UpdInterval == 0 {
			updTime, updBlock = now, h // the feed list is re-computed before prices / misses are evaluated
			v.Count("feed_list_updates", 1)
		}
		ctx := ch.Ctx()
		cf := ch.App.FeedsKeeper.GetCurrentFeeds(ctx)
		feeds = cf.Feeds
		if cf.LastUpdateTimestamp != updTime || cf.LastUpdateBlock != updBlock {
			v.Count("upd_clock_mismatch", 1)
		}
		var expiring, still []*c15Req
		for _, r := range open {
			if r.h+exp <= h {
				expiring = append(expiring, r)
			} else {
				still = append(still, r)
			}
		}
		open = still

		deactEvents := map[int]int{}
		for _, e := range sim.Events(res.Resp, "deactivate") {
			if i, known := valIdx[sim.Attr(e, "validator")]; known {
				deactEvents[i]++
			}
		}

		for i, s := range vs {
			st := ch.App.OracleKeeper.GetValidatorStatus(ctx, ch.Vals[i].Val)
			if !s.active {
				if st.IsActive {
					v.Failf("C15/active-without-activate", "val%d is active after height %d without a successful MsgActivate (model: inactive since %d)", i, h, s.since)
					return false
				}
				continue
			}
			// -- genuine miss according to the reference, oracle side
			oracleMiss, oracleDetail, expDetail := false, "", ""
			for _, r := range expiring {
				chosen := false
				for _, j := range r.chosen {
					if j == i {
						chosen = true
					}
				}
				if !chosen {
					continue
				}
				expDetail += fmt.Sprintf(" [request %d made at %d height %d, report sent: %v]", r.id, r.t, r.h, r.sent[i])
				if r.sent[i] {
					if !r.accepted[i] {
						v.Count("sent_report_not_accepted_at_expiry", 1)
					}
					continue
				}
				// a refusal is only observable if the validator stays active
				if d := s.since - r.t; margin1(d) && (d < 0 || st.IsActive) {
					nearDecision = true
					classes[fmt.Sprintf("oracle:since-reqtime%+d:%s", d, c15Outcome(!st.IsActive))] = true
				}
				if ref.OracleMiss(true, true, false, true, s.sinceMs, r.tMs) {
					oracleMiss = true
					oracleDetail = fmt.Sprintf("request %d (made at %d, height %d) expired unreported", r.id, r.t, r.h)
				}
				s.clean = false
			}
			// -- feeds side
			// the validator is missed iff some feed is missed, i.e. iff the LARGEST per-feed margin is positive:
			// that feed and its tightest clock decide
			feedsMiss, tight, tightClock, feedsDetail := ref.No, int64(-1<<40), "", ""
			for _, f := range feeds {
				p, has := s.prices[f.SignalID]
				in := ref.FeedsMissInput{Now: now, Height: h, Active: true, Since: s.since, Grace: grace, UpdTime: updTime, UpdBlock: updBlock,
					Interval: f.Interval, HasPrice: has, PriceTime: p.ts, PriceBlock: p.h, BlockSeconds: feedstypes.MaxGuaranteeBlockTime}
				r, m, clock := ref.FeedsMiss(in)
				if m > tight {
					tight, tightClock = m, clock
				}
				if r == ref.Yes || (r == ref.Either && feedsMiss == ref.No) {
					feedsMiss = r
					feedsDetail = fmt.Sprintf("feed %s interval %d: price %v (ts %d, height %d), tightest clock %s margin %d", f.SignalID, f.Interval, has, p.ts, p.h, clock, m)
				}
				if !has || p.ts+f.Interval < now {
					s.clean = false
				}
				// blocks in which a clock running from the claimed timestamp and the clock running from the time
				// of acceptance disagree about "sufficiently recent"; decisive = every other clock is over
				if has && (p.claimed+f.Interval < now) != (p.ts+f.Interval < now) {
					in.HasPrice = false
					others, _, _ := ref.FeedsMiss(in)
					label := "gap:claimed-stale-accepted-fresh"
					if p.claimed > p.ts {
						label = "gap:claimed-fresh-accepted-stale"
					}
					if others != ref.No && (h-p.h)*feedstypes.MaxGuaranteeBlockTime > f.Interval {
						label += ":decisive"
						v.Count("gap_decisive_blocks", 1)
					}
					classes[label] = true
					v.Count("gap_blocks", 1)
				}
			}
			// the feeds decision is only observable if the oracle side did not already deactivate the validator
			if margin1(tight) && !oracleMiss {
				nearDecision = true
				classes[fmt.Sprintf("feeds:%s%+d:%s", tightClock, tight, c15Outcome(!st.IsActive))] = true
			}
			genuine := feedsMiss
			if oracleMiss {
				genuine = ref.Yes
			}

			if !st.IsActive { // flipped true -> false in this block
				v.Count("deactivations", 1)
				if oracleMiss {
					v.Count("deactivations_oracle_side", 1)
				} else {
					v.Count("deactivations_feeds_side", 1)
					if h <= s.actHeight+grace/feedstypes.MaxGuaranteeBlockTime {
						v.Count("deact_within_activation_block_fallback", 1)
					}
				}
				switch genuine {
				case ref.No:
					v.Failf("C15/deactivated-without-miss", "val%d (active since %d) was deactivated at height %d time %d without a genuine miss: "+
						"expiring requests it was chosen for:%s (none is a miss); feeds: update clock (%d, height %d) grace %d, deciding clock %s margin %d",
						i, s.since, h, now, expDetail, updTime, updBlock, grace, tightClock, tight)
					return false
				case ref.Either:
					v.Count("boundary_equal", 1)
					v.Count("boundary_equal_deactivated", 1)
				}
				if s.clean {
					v.Failf("C15/diligent-deactivated", "val%d reported every request and always had fresh prices but was deactivated at height %d (%s %s)", i, h, oracleDetail, feedsDetail)
					return false
				}
				if deactEvents[i] != 1 {
					v.Count("deactivate_event_mismatch", 1)
				}
				s.active, s.since, s.sinceMs, s.everDeact = false, now, nowMs, true
			} else {
				switch genuine {
				case ref.Yes:
					v.Count("converse_mismatch", 1)
					v.Count("converse_mismatch_deactivate", 1)
				case ref.Either:
					v.Count("boundary_equal", 1)
					v.Count("boundary_equal_kept", 1)
				}
				if deactEvents[i] != 0 {
					v.Count("deactivate_event_mismatch", 1)
				}
				if !st.Since.Equal(time.UnixMilli(s.sinceMs)) {
					v.Count("since_mismatch", 1)
				}
			}
		}
		return true
	}

	// block 2: initial activations
	for i, a := range c.InitActive[:n] {
		if a {
			pend = append(pend, c15Op{K: "act", Val: i})
		}
	}
	if !flush(c15Op{K: "end", Dt: 1}) {
		return v
	}
	for _, o := range c.Ops {
		if o.K == "end" {
			if !flush(o) {
				return v
			}
			continue
		}
		pend = append(pend, o)
	}
	// tail: let every open request expire
	for i := int64(0); i <= exp; i++ {
		if !flush(c15Op{K: "end", Dt: 1}) {
			return v
		}
	}

	keys := make([]string, 0, len(classes))
	for k := range classes {
		keys = append(keys, k)
	}
	sort.Strings(keys)
	for _, k := range keys {
		v.Class(k)
	}
	nClean := 0
	for i, s := range vs {
		if s.everActive && s.clean && !s.everDeact {
			nClean++
		}
		if c.Diligent[i] && s.everDeact {
			v.Count("diligent_flag_but_deactivated", 1)
		}
	}
	if nClean > 0 {
		v.Class("has-clean-validator")
	}
	v.NonTrivial = nearDecision
	if !nearDecision {
		v.Class("no-near-boundary-decision")
	}
	return v
}

func c15Outcome(deactivated bool) string {
	if deactivated {
		return "deactivated"
	}
	return "kept"
}

// c15ResolveAct late-binds the validator of an activate op (-1: inapplicable).
func c15ResolveAct(p c15Op, vs []*c15Val) int {
	n := len(vs)
	if p.Mode == 0 {
		return p.Val % n
	}
	var inactive []int
	for i, s := range vs {
		if !s.active {
			inactive = append(inactive, i)
		}
	}
	if len(inactive) == 0 {
		return -1
	}
	return inactive[p.Val%len(inactive)]
}

func TestC15Chain(t *testing.T) { pbt.Check(t, "C15", genC15Chain, runC15Chain) }
