package c15

import (
	"fmt"
	"testing"
	"time"

	"pgregory.net/rapid"

	feedskeeper "github.com/bandprotocol/chain/v3/x/feeds/keeper"
	feedstypes "github.com/bandprotocol/chain/v3/x/feeds/types"
	oracletypes "github.com/bandprotocol/chain/v3/x/oracle/types"

	"verif/harness/gen"
	"verif/harness/pbt"
	"verif/harness/ref"
)

// TestC15Pure: the pure miss rule of the feeds module (keeper.CheckMissReport) against ref.FeedsMiss, one
// directional: implementation says "miss" => the reference says it is a genuine miss (or is silent).

type c15PureCase struct {
	Now        int64 `json:"now"`
	Height     int64 `json:"height"`
	Grace      int64 `json:"grace"`
	Interval   int64 `json:"interval"`
	Since      int64 `json:"since"`
	UpdTime    int64 `json:"upd_time"`
	UpdBlock   int64 `json:"upd_block"`
	Status     int32 `json:"status"` // 0 = no price for the signal
	PriceTime  int64 `json:"price_time"`
	PriceBlock int64 `json:"price_block"`
}

// genMargin draws the distance of one clock to its boundary (miss needs margin > 0).
func genMargin(rt *rapid.T, label string, near bool) int64 {
	if near {
		return int64(gen.Range(rt, label+"-near", -1, 1))
	}
	switch gen.Pick(rt, label+"-kind", 10, 1, 3, 1) {
	case 0: // comfortably over
		return int64(gen.Range(rt, label+"-over", 2, 2000))
	case 1: // comfortably not over
		return -int64(gen.Range(rt, label+"-under", 2, 2000))
	case 2: // long ago
		return int64(gen.Range(rt, label+"-far", 2000, 5_000_000))
	}
	return int64(gen.Range(rt, label+"-any", -5, 5))
}

func genC15Pure(rt *rapid.T) c15PureCase {
	c := c15PureCase{
		Now:    1_700_000_000 + int64(gen.Range(rt, "now", 10_000_000, 20_000_000)),
		Height: int64(gen.Range(rt, "height", 5_000_000, 9_000_000)),
	}
	c.Grace = gen.OneOf[int64](rt, "grace", 0, 1, 2, 3, 4, 5, 6, 7, 29, 30, 31, 59, 60, int64(gen.Range(rt, "grace-any", 0, 60)))
	c.Interval = gen.OneOf[int64](rt, "interval", 1, 2, 3, 4, 5, 6, 59, 60, 61, 3599, 3600, int64(gen.Range(rt, "interval-any", 1, 3600)))
	c.Status = int32(gen.Pick(rt, "status", 3, 1, 1, 5)) // UNSPECIFIED, UNSUPPORTED, UNAVAILABLE, AVAILABLE

	// which clocks sit at their boundary: usually one or two, the others mostly comfortably over so that the
	// near clock is the deciding one
	mode := gen.Pick(rt, "mode", 6, 3, 1)
	var near [5]bool
	switch mode {
	case 0:
		near[gen.Uniform(rt, "near1", 5)] = true
	case 1:
		near[gen.Uniform(rt, "near1", 5)] = true
		near[gen.Uniform(rt, "near2", 5)] = true
	default:
		for i := range near {
			near[i] = gen.Chance(rt, "nearall", 1, 2)
		}
	}
	m := [5]int64{}
	for i, name := range []string{"m-act", "m-upd", "m-price", "m-updblk", "m-priceblk"} {
		m[i] = genMargin(rt, name, near[i])
	}
	c.Since = c.Now - c.Grace - m[0]
	c.UpdTime = c.Now - c.Grace - m[1]
	c.PriceTime = c.Now - c.Interval - m[2]
	c.UpdBlock = c.Height - c.Grace/ref.GuaranteeBlockSeconds - m[3]
	c.PriceBlock = c.Height - c.Interval/ref.GuaranteeBlockSeconds - m[4]

	// soundness repair: nothing lies in the future, and (time, height) pairs are ordered consistently like
	// real blocks are (same height => same time; later height => not earlier time)
	clampT := func(t *int64) {
		if *t > c.Now {
			*t = c.Now
		}
	}
	clampH := func(h *int64) {
		if *h > c.Height {
			*h = c.Height
		}
	}
	clampT(&c.Since)
	clampT(&c.UpdTime)
	clampT(&c.PriceTime)
	clampH(&c.UpdBlock)
	clampH(&c.PriceBlock)
	fix := func(t, h *int64, ot, oh int64) { // make (t,h) consistent with the other pair (ot,oh); the time wins
		switch {
		case *t < ot && *h >= oh:
			*h = oh - 1
		case *t > ot && *h <= oh:
			// cannot move h beyond Height: if there is no room move the time instead
			if oh+1 <= c.Height {
				*h = oh + 1
			} else {
				*t = ot
				*h = oh
			}
		}
	}
	// against the current block (Now, Height)
	if c.UpdBlock == c.Height {
		c.UpdTime = c.Now
	}
	if c.PriceBlock == c.Height {
		c.PriceTime = c.Now
	}
	fix(&c.PriceTime, &c.PriceBlock, c.UpdTime, c.UpdBlock)
	if c.PriceBlock == c.UpdBlock {
		c.PriceTime = c.UpdTime
	}
	if c.PriceBlock == c.Height {
		c.PriceTime = c.Now
	}
	return c
}

func runC15Pure(c c15PureCase) *pbt.Verdict {
	v := &pbt.Verdict{}
	feed := feedstypes.NewFeed("CS:BTC-USD", 1_000_000, c.Interval)
	valPrice := feedstypes.ValidatorPrice{}
	if c.Status != 0 {
		valPrice = feedstypes.ValidatorPrice{SignalPriceStatus: feedstypes.SignalPriceStatus(c.Status), SignalID: feed.SignalID, Price: 1, Timestamp: c.PriceTime, BlockHeight: c.PriceBlock}
	}
	valInfo := feedstypes.ValidatorInfo{Power: 1, Status: oracletypes.NewValidatorStatus(true, time.Unix(c.Since, 0).UTC())}
	impl := feedskeeper.CheckMissReport(feed, c.UpdTime, c.UpdBlock, valPrice, valInfo, time.Unix(c.Now, 0).UTC(), c.Height, c.Grace)

	want, margin, clock := ref.FeedsMiss(ref.FeedsMissInput{
		Now: c.Now, Height: c.Height, Active: true, Since: c.Since, Grace: c.Grace, UpdTime: c.UpdTime, UpdBlock: c.UpdBlock,
		Interval: c.Interval, HasPrice: c.Status != 0, PriceTime: c.PriceTime, PriceBlock: c.PriceBlock,
		BlockSeconds: feedstypes.MaxGuaranteeBlockTime,
	})
	switch {
	case impl && want == ref.No:
		v.Failf("C15/pure-unfair-miss", "CheckMissReport says miss but the reference says no genuine miss (tightest clock %s, margin %d): %+v", clock, margin, c)
	case !impl && want == ref.Yes:
		v.Count("converse_mismatch", 1)
	case want == ref.Either:
		v.Count("boundary_equal", 1)
		if impl {
			v.Count("boundary_equal_miss", 1)
		} else {
			v.Count("boundary_equal_nomiss", 1)
		}
	}
	v.NonTrivial = margin >= -1 && margin <= 1
	if v.NonTrivial {
		v.Class(fmt.Sprintf("near:%s:%+d", clock, margin))
	} else if margin > 1 {
		v.Class("far:miss")
	} else {
		v.Class("far:no-miss")
	}
	v.Class("ref:" + want.String())
	if impl {
		v.Class("impl:miss")
	}
	if c.Status == 0 {
		v.Class("no-price")
	}
	if c.Grace == 0 {
		v.Class("grace0")
	}
	return v
}

func TestC15Pure(t *testing.T) { pbt.Check(t, "C15", genC15Pure, runC15Pure) }
