package ref

// Reference layout of the bytes a TSS group signs (property C11), written from the statement and the module
// docs, never from the implementation:
//
//	message    = keccak256(originator) | u64be(block time, unix seconds) | u64be(signing id) | content
//	content    = keccak256(route)[:4] | keccak256(kind)[:4] | body
//	originator = keccak256("DirectOriginator")[:4] | H(source chain) | H(requester) | H(memo)
//	           | keccak256("TunnelOriginator")[:4] | H(source chain) | u64be(tunnel id) | H(dst chain) | H(dst contract)
//
// Bodies: raw text; pubkey | u64be(transition time); protobuf Result; Solidity-ABI encodings of the oracle
// result (full / partial), of (Prices[], timestamp) and of the tunnel packet (sequence, Prices[], createdAt).
//
// The file has (1) byte-exact reference ENCODERS written by hand from the Solidity ABI spec / protobuf wire
// spec, and (2) DECODERS that use go-ethereum's abi package with ABI types declared here, independently of the
// declarations in /repo. Nothing in here imports /repo.

import (
	"bytes"
	"encoding/binary"
	"errors"
	"fmt"
	"reflect"

	"github.com/ethereum/go-ethereum/accounts/abi"
	"golang.org/x/crypto/sha3"
)

// ---- hashing, tags ---------------------------------------------------------------------------------------

// EncKeccak256 is legacy Keccak-256 (the Ethereum one) of the concatenation of parts.
func EncKeccak256(parts ...[]byte) []byte {
	h := sha3.NewLegacyKeccak256()
	for _, p := range parts {
		h.Write(p)
	}
	return h.Sum(nil)
}

// SelectorTag is the 4-byte tag/selector of a name: keccak256(name)[:4].
func SelectorTag(name string) []byte { return EncKeccak256([]byte(name))[:4] }

// Names from which the tags are derived (documented next to each constant in the code base).
const (
	NameDirectOriginator = "DirectOriginator"
	NameTunnelOriginator = "TunnelOriginator"

	KindText          = "Text"
	KindTransition    = "Transition"
	KindProto         = "Proto"
	KindFullABI       = "FullABI"
	KindPartialABI    = "PartialABI"
	KindFixedPointABI = "FixedPointABI"
	KindTickABI       = "TickABI"

	RouteTSS     = "tss"
	RouteOracle  = "oracle"
	RouteBandtss = "bandtss"
	RouteFeeds   = "feeds"
	RouteTunnel  = "tunnel"
)

// OriginatorNames, KindNames, RouteNames enumerate every tag-bearing name of its namespace.
var (
	OriginatorNames = []string{NameDirectOriginator, NameTunnelOriginator}
	KindNames       = []string{KindText, KindTransition, KindProto, KindFullABI, KindPartialABI, KindFixedPointABI, KindTickABI}
	RouteNames      = []string{RouteTSS, RouteOracle, RouteBandtss, RouteFeeds, RouteTunnel}
	// InternalRoutes are the routes whose contents only modules may request.
	InternalRoutes = []string{RouteBandtss, RouteTunnel}
)

// TagCollisions lists every pair of names whose tags collide inside one namespace (originators; kinds;
// routes) plus, because user text directly follows the "tss|Text" prefix, nothing else. Empty = all distinct.
func TagCollisions() []string {
	var out []string
	for _, ns := range [][]string{OriginatorNames, KindNames, RouteNames} {
		for i := 0; i < len(ns); i++ {
			for j := i + 1; j < len(ns); j++ {
				if bytes.Equal(SelectorTag(ns[i]), SelectorTag(ns[j])) {
					out = append(out, ns[i]+"=="+ns[j])
				}
			}
		}
	}
	return out
}

func EncU64BE(x uint64) []byte {
	b := make([]byte, 8)
	binary.BigEndian.PutUint64(b, x)
	return b
}

func encCat(parts ...[]byte) []byte {
	n := 0
	for _, p := range parts {
		n += len(p)
	}
	out := make([]byte, 0, n)
	for _, p := range parts {
		out = append(out, p...)
	}
	return out
}

// ---- originators, header ---------------------------------------------------------------------------------

func EncodeDirectOriginator(sourceChainID, requester, memo string) []byte {
	return encCat(SelectorTag(NameDirectOriginator), EncKeccak256([]byte(sourceChainID)), EncKeccak256([]byte(requester)), EncKeccak256([]byte(memo)))
}

func EncodeTunnelOriginator(sourceChainID string, tunnelID uint64, dstChainID, dstContract string) []byte {
	return encCat(SelectorTag(NameTunnelOriginator), EncKeccak256([]byte(sourceChainID)), EncU64BE(tunnelID),
		EncKeccak256([]byte(dstChainID)), EncKeccak256([]byte(dstContract)))
}

// SigningMessage is the full message a group signs.
func SigningMessage(originator []byte, unixTime uint64, signingID uint64, content []byte) []byte {
	return encCat(EncKeccak256(originator), EncU64BE(unixTime), EncU64BE(signingID), content)
}

// ParsedSigning is a signing message split at its fixed offsets.
type ParsedSigning struct {
	OriginatorHash []byte
	Time           uint64
	SigningID      uint64
	Content        []byte
}

func ParseSigningMessage(msg []byte) (ParsedSigning, error) {
	if len(msg) < 48 {
		return ParsedSigning{}, fmt.Errorf("signing message too short: %d", len(msg))
	}
	return ParsedSigning{
		OriginatorHash: append([]byte(nil), msg[:32]...),
		Time:           binary.BigEndian.Uint64(msg[32:40]),
		SigningID:      binary.BigEndian.Uint64(msg[40:48]),
		Content:        append([]byte(nil), msg[48:]...),
	}, nil
}

// EncContent builds route selector | kind tag | body.
func EncContent(route, kind string, body []byte) []byte {
	return encCat(SelectorTag(route), SelectorTag(kind), body)
}

// SplitContent returns the names of the route and kind (by tag lookup) and the body.
func SplitContent(content []byte) (route, kind string, body []byte, err error) {
	if len(content) < 8 {
		return "", "", nil, fmt.Errorf("content too short: %d", len(content))
	}
	for _, r := range RouteNames {
		if bytes.Equal(SelectorTag(r), content[:4]) {
			route = r
		}
	}
	for _, k := range KindNames {
		if bytes.Equal(SelectorTag(k), content[4:8]) {
			kind = k
		}
	}
	if route == "" || kind == "" {
		return route, kind, nil, fmt.Errorf("unknown selector/tag %x/%x", content[:4], content[4:8])
	}
	return route, kind, content[8:], nil
}

// TextBody / TransitionBody are the two non-ABI bodies.
func TextBody(msg []byte) []byte { return append([]byte(nil), msg...) }

func TransitionBody(pubKey []byte, transitionUnix uint64) []byte {
	return encCat(pubKey, EncU64BE(transitionUnix))
}

// ---- source value types ----------------------------------------------------------------------------------

// OracleResult mirrors the documented fields of an oracle Result (proto field numbers 1..11 in this order).
type OracleResult struct {
	ClientID       string `json:"client_id"`
	OracleScriptID uint64 `json:"oracle_script_id"`
	Calldata       []byte `json:"calldata"`
	AskCount       uint64 `json:"ask_count"`
	MinCount       uint64 `json:"min_count"`
	RequestID      uint64 `json:"request_id"`
	AnsCount       uint64 `json:"ans_count"`
	RequestTime    int64  `json:"request_time"`
	ResolveTime    int64  `json:"resolve_time"`
	ResolveStatus  int32  `json:"resolve_status"`
	Result         []byte `json:"result"`
}

// Partial returns the result with only the fields of the partial ABI encoding kept.
func (r OracleResult) Partial() OracleResult {
	return OracleResult{Calldata: r.Calldata, OracleScriptID: r.OracleScriptID, RequestID: r.RequestID,
		MinCount: r.MinCount, ResolveTime: r.ResolveTime, ResolveStatus: r.ResolveStatus, Result: r.Result}
}

func (r OracleResult) Equal(o OracleResult) bool {
	return r.ClientID == o.ClientID && r.OracleScriptID == o.OracleScriptID && bytes.Equal(r.Calldata, o.Calldata) &&
		r.AskCount == o.AskCount && r.MinCount == o.MinCount && r.RequestID == o.RequestID && r.AnsCount == o.AnsCount &&
		r.RequestTime == o.RequestTime && r.ResolveTime == o.ResolveTime && r.ResolveStatus == o.ResolveStatus &&
		bytes.Equal(r.Result, o.Result)
}

// RelayPrice is one (signal id, value) pair of a price payload; Value is the 10^9 fixed-point price or the
// offset tick, 0 meaning "no price".
type RelayPrice struct {
	SignalID string `json:"signal_id"`
	Value    uint64 `json:"value"`
}

// SignalIDToBytes32 right-aligns the id in 32 bytes (left padded with zero bytes).
func SignalIDToBytes32(id string) ([32]byte, error) {
	var out [32]byte
	if len(id) > 32 {
		return out, errors.New("signal id longer than 32 bytes")
	}
	copy(out[32-len(id):], id)
	return out, nil
}

// Bytes32ToSignalID strips the left padding.
func Bytes32ToSignalID(b [32]byte) string {
	i := 0
	for i < 32 && b[i] == 0 {
		i++
	}
	return string(b[i:])
}

// ---- hand written ABI encoders (Solidity ABI spec, "strict encoding mode") -----------------------------------

func abiWord(x uint64) []byte {
	b := make([]byte, 32)
	binary.BigEndian.PutUint64(b[24:], x)
	return b
}

func abiWordInt(x int64) []byte {
	b := make([]byte, 32)
	if x < 0 {
		for i := range b {
			b[i] = 0xff
		}
	}
	binary.BigEndian.PutUint64(b[24:], uint64(x))
	return b
}

// dyn encodes a bytes/string value: length word, data right-padded to a multiple of 32.
func abiDyn(data []byte) []byte {
	out := abiWord(uint64(len(data)))
	out = append(out, data...)
	if r := len(data) % 32; r != 0 {
		out = append(out, make([]byte, 32-r)...)
	}
	return out
}

// tuple lays out a tuple from its members; a nil static means the member is dynamic with the given tail.
type abiMember struct {
	static []byte // exactly 32*k bytes, or nil
	tail   []byte
}

func abiTuple(ms ...abiMember) []byte {
	headLen := 0
	for _, m := range ms {
		if m.static != nil {
			headLen += len(m.static)
		} else {
			headLen += 32
		}
	}
	var head, tail []byte
	for _, m := range ms {
		if m.static != nil {
			head = append(head, m.static...)
		} else {
			head = append(head, abiWord(uint64(headLen+len(tail)))...)
			tail = append(tail, m.tail...)
		}
	}
	return append(head, tail...)
}

func abiSt(b []byte) abiMember { return abiMember{static: b} }
func abiDy(b []byte) abiMember { return abiMember{tail: b} }

// ABIOracleFull is abi.encode(Result) with Result = (string ClientID, uint64 OracleScriptID, bytes Calldata,
// uint64 AskCount, uint64 MinCount, uint64 RequestID, uint64 AnsCount, int64 RequestTime, int64 ResolveTime,
// int32 ResolveStatus, bytes Result).
func ABIOracleFull(r OracleResult) []byte {
	t := abiTuple(abiDy(abiDyn([]byte(r.ClientID))), abiSt(abiWord(r.OracleScriptID)), abiDy(abiDyn(r.Calldata)), abiSt(abiWord(r.AskCount)),
		abiSt(abiWord(r.MinCount)), abiSt(abiWord(r.RequestID)), abiSt(abiWord(r.AnsCount)), abiSt(abiWordInt(r.RequestTime)),
		abiSt(abiWordInt(r.ResolveTime)), abiSt(abiWordInt(int64(r.ResolveStatus))), abiDy(abiDyn(r.Result)))
	return abiTuple(abiDy(t))
}

// ABIOraclePartial is abi.encode((bytes Calldata, uint64 OracleScriptID, uint64 RequestID, uint64 MinCount,
// int64 ResolveTime, int32 ResolveStatus, bytes Result)).
func ABIOraclePartial(r OracleResult) []byte {
	t := abiTuple(abiDy(abiDyn(r.Calldata)), abiSt(abiWord(r.OracleScriptID)), abiSt(abiWord(r.RequestID)), abiSt(abiWord(r.MinCount)),
		abiSt(abiWordInt(r.ResolveTime)), abiSt(abiWordInt(int64(r.ResolveStatus))), abiDy(abiDyn(r.Result)))
	return abiTuple(abiDy(t))
}

func abiPriceArray(ps []RelayPrice) ([]byte, error) {
	out := abiWord(uint64(len(ps)))
	for _, p := range ps {
		id, err := SignalIDToBytes32(p.SignalID)
		if err != nil {
			return nil, err
		}
		out = append(out, id[:]...)
		out = append(out, abiWord(p.Value)...)
	}
	return out, nil
}

// ABIFeedsPrices is abi.encode((bytes32 SignalID, uint64 Price)[] Prices, int64 Timestamp).
func ABIFeedsPrices(ps []RelayPrice, timestamp int64) ([]byte, error) {
	arr, err := abiPriceArray(ps)
	if err != nil {
		return nil, err
	}
	return abiTuple(abiDy(arr), abiSt(abiWordInt(timestamp))), nil
}

// ABITunnelPacket is abi.encode((uint64 Sequence, (bytes32 SignalID, uint64 Price)[] RelayPrices, int64 CreatedAt)).
func ABITunnelPacket(sequence uint64, ps []RelayPrice, createdAt int64) ([]byte, error) {
	arr, err := abiPriceArray(ps)
	if err != nil {
		return nil, err
	}
	return abiTuple(abiDy(abiTuple(abiSt(abiWord(sequence)), abiDy(arr), abiSt(abiWordInt(createdAt))))), nil
}

// ---- decoders built on go-ethereum abi with independently declared types --------------------------------------

func abiMustType(t string, comps []abi.ArgumentMarshaling) abi.Type {
	ty, err := abi.NewType(t, "", comps)
	if err != nil {
		panic(err) // static declarations below; exercised by every run
	}
	return ty
}

var (
	priceComponents = []abi.ArgumentMarshaling{
		{Name: "signalId", Type: "bytes32"},
		{Name: "value", Type: "uint64"},
	}
	declOracleFull = abi.Arguments{{Name: "r", Type: abiMustType("tuple", []abi.ArgumentMarshaling{
		{Name: "clientId", Type: "string"},
		{Name: "oracleScriptId", Type: "uint64"},
		{Name: "calldata", Type: "bytes"},
		{Name: "askCount", Type: "uint64"},
		{Name: "minCount", Type: "uint64"},
		{Name: "requestId", Type: "uint64"},
		{Name: "ansCount", Type: "uint64"},
		{Name: "requestTime", Type: "int64"},
		{Name: "resolveTime", Type: "int64"},
		{Name: "resolveStatus", Type: "int32"},
		{Name: "result", Type: "bytes"},
	})}}
	declOraclePartial = abi.Arguments{{Name: "r", Type: abiMustType("tuple", []abi.ArgumentMarshaling{
		{Name: "calldata", Type: "bytes"},
		{Name: "oracleScriptId", Type: "uint64"},
		{Name: "requestId", Type: "uint64"},
		{Name: "minCount", Type: "uint64"},
		{Name: "resolveTime", Type: "int64"},
		{Name: "resolveStatus", Type: "int32"},
		{Name: "result", Type: "bytes"},
	})}}
	declFeeds = abi.Arguments{
		{Name: "prices", Type: abiMustType("tuple[]", priceComponents)},
		{Name: "timestamp", Type: abiMustType("int64", nil)},
	}
	declTunnel = abi.Arguments{{Name: "p", Type: abiMustType("tuple", []abi.ArgumentMarshaling{
		{Name: "sequence", Type: "uint64"},
		{Name: "prices", Type: "tuple[]", Components: priceComponents},
		{Name: "createdAt", Type: "int64"},
	})}}
)

// fields returns the members of an unpacked tuple (an anonymous struct) by position.
func abiFields(v any, n int) ([]any, error) {
	rv := reflect.ValueOf(v)
	for rv.IsValid() && (rv.Kind() == reflect.Ptr || rv.Kind() == reflect.Interface) {
		rv = rv.Elem()
	}
	if !rv.IsValid() || rv.Kind() != reflect.Struct || rv.NumField() != n {
		return nil, fmt.Errorf("unpacked value is not a %d-tuple: %T", n, v)
	}
	out := make([]any, n)
	for i := 0; i < n; i++ {
		if !rv.Field(i).CanInterface() {
			return nil, fmt.Errorf("tuple member %d not accessible", i)
		}
		out[i] = rv.Field(i).Interface()
	}
	return out, nil
}

func abiAs[T any](x any, err *error, what string) T {
	v, ok := x.(T)
	if !ok && *err == nil {
		*err = fmt.Errorf("%s has type %T", what, x)
	}
	return v
}

func abiUnpack(args abi.Arguments, data []byte, n int) (vals []any, err error) {
	defer func() {
		if r := recover(); r != nil {
			err = fmt.Errorf("abi unpack panicked: %v", r)
		}
	}()
	vals, err = args.Unpack(data)
	if err != nil {
		return nil, err
	}
	if len(vals) != n {
		return nil, fmt.Errorf("unpacked %d values, want %d", len(vals), n)
	}
	return vals, nil
}

func DecodeOracleFullABI(body []byte) (OracleResult, error) {
	vals, err := abiUnpack(declOracleFull, body, 1)
	if err != nil {
		return OracleResult{}, err
	}
	f, err := abiFields(vals[0], 11)
	if err != nil {
		return OracleResult{}, err
	}
	r := OracleResult{
		ClientID:       abiAs[string](f[0], &err, "clientId"),
		OracleScriptID: abiAs[uint64](f[1], &err, "oracleScriptId"),
		Calldata:       abiAs[[]byte](f[2], &err, "calldata"),
		AskCount:       abiAs[uint64](f[3], &err, "askCount"),
		MinCount:       abiAs[uint64](f[4], &err, "minCount"),
		RequestID:      abiAs[uint64](f[5], &err, "requestId"),
		AnsCount:       abiAs[uint64](f[6], &err, "ansCount"),
		RequestTime:    abiAs[int64](f[7], &err, "requestTime"),
		ResolveTime:    abiAs[int64](f[8], &err, "resolveTime"),
		ResolveStatus:  abiAs[int32](f[9], &err, "resolveStatus"),
		Result:         abiAs[[]byte](f[10], &err, "result"),
	}
	return r, err
}

func DecodeOraclePartialABI(body []byte) (OracleResult, error) {
	vals, err := abiUnpack(declOraclePartial, body, 1)
	if err != nil {
		return OracleResult{}, err
	}
	f, err := abiFields(vals[0], 7)
	if err != nil {
		return OracleResult{}, err
	}
	r := OracleResult{
		Calldata:       abiAs[[]byte](f[0], &err, "calldata"),
		OracleScriptID: abiAs[uint64](f[1], &err, "oracleScriptId"),
		RequestID:      abiAs[uint64](f[2], &err, "requestId"),
		MinCount:       abiAs[uint64](f[3], &err, "minCount"),
		ResolveTime:    abiAs[int64](f[4], &err, "resolveTime"),
		ResolveStatus:  abiAs[int32](f[5], &err, "resolveStatus"),
		Result:         abiAs[[]byte](f[6], &err, "result"),
	}
	return r, err
}

func decodePriceSlice(v any) ([]RelayPrice, error) {
	rv := reflect.ValueOf(v)
	if !rv.IsValid() || rv.Kind() != reflect.Slice {
		return nil, fmt.Errorf("prices is not a slice: %T", v)
	}
	out := make([]RelayPrice, 0, rv.Len())
	for i := 0; i < rv.Len(); i++ {
		f, err := abiFields(rv.Index(i).Interface(), 2)
		if err != nil {
			return nil, err
		}
		id := abiAs[[32]byte](f[0], &err, "signalId")
		val := abiAs[uint64](f[1], &err, "value")
		if err != nil {
			return nil, err
		}
		out = append(out, RelayPrice{SignalID: Bytes32ToSignalID(id), Value: val})
	}
	return out, nil
}

// DecodeFeedsPrices decodes the body of a feeds price payload (either kind).
func DecodeFeedsPrices(body []byte) ([]RelayPrice, int64, error) {
	vals, err := abiUnpack(declFeeds, body, 2)
	if err != nil {
		return nil, 0, err
	}
	ps, err := decodePriceSlice(vals[0])
	if err != nil {
		return nil, 0, err
	}
	ts := abiAs[int64](vals[1], &err, "timestamp")
	return ps, ts, err
}

// DecodeTunnelPacket decodes the body of a tunnel packet payload (either kind).
func DecodeTunnelPacket(body []byte) (sequence uint64, ps []RelayPrice, createdAt int64, err error) {
	vals, err := abiUnpack(declTunnel, body, 1)
	if err != nil {
		return 0, nil, 0, err
	}
	f, err := abiFields(vals[0], 3)
	if err != nil {
		return 0, nil, 0, err
	}
	sequence = abiAs[uint64](f[0], &err, "sequence")
	createdAt = abiAs[int64](f[2], &err, "createdAt")
	if err != nil {
		return 0, nil, 0, err
	}
	ps, err = decodePriceSlice(f[1])
	return sequence, ps, createdAt, err
}

// ---- protobuf (wire format, proto3) --------------------------------------------------------------------------

func pbPutVarint(b []byte, x uint64) []byte {
	for x >= 0x80 {
		b = append(b, byte(x)|0x80)
		x >>= 7
	}
	return append(b, byte(x))
}

func pbVarint(b []byte, field int, x uint64) []byte {
	if x == 0 {
		return b // proto3: default values are not emitted
	}
	b = pbPutVarint(b, uint64(field)<<3|0)
	return pbPutVarint(b, x)
}

func pbBytes(b []byte, field int, data []byte) []byte {
	if len(data) == 0 {
		return b
	}
	b = pbPutVarint(b, uint64(field)<<3|2)
	b = pbPutVarint(b, uint64(len(data)))
	return append(b, data...)
}

// ProtoOracleResult is the canonical proto3 serialisation (ascending field order, defaults omitted).
func ProtoOracleResult(r OracleResult) []byte {
	var b []byte
	b = pbBytes(b, 1, []byte(r.ClientID))
	b = pbVarint(b, 2, r.OracleScriptID)
	b = pbBytes(b, 3, r.Calldata)
	b = pbVarint(b, 4, r.AskCount)
	b = pbVarint(b, 5, r.MinCount)
	b = pbVarint(b, 6, r.RequestID)
	b = pbVarint(b, 7, r.AnsCount)
	b = pbVarint(b, 8, uint64(r.RequestTime))
	b = pbVarint(b, 9, uint64(r.ResolveTime))
	b = pbVarint(b, 10, uint64(int64(r.ResolveStatus)))
	b = pbBytes(b, 11, r.Result)
	return b
}

func pbGetVarint(b []byte) (uint64, int, error) {
	var x uint64
	for i := 0; i < len(b) && i < 10; i++ {
		x |= uint64(b[i]&0x7f) << (7 * uint(i))
		if b[i] < 0x80 {
			return x, i + 1, nil
		}
	}
	return 0, 0, errors.New("bad varint")
}

// DecodeOracleProto parses the wire format (last value of a repeated scalar field wins, unknown fields are an
// error because the payload is supposed to be exactly a Result).
func DecodeOracleProto(body []byte) (OracleResult, error) {
	var r OracleResult
	for len(body) > 0 {
		key, n, err := pbGetVarint(body)
		if err != nil {
			return r, err
		}
		body = body[n:]
		field, wt := int(key>>3), int(key&7)
		switch wt {
		case 0:
			x, n, err := pbGetVarint(body)
			if err != nil {
				return r, err
			}
			body = body[n:]
			switch field {
			case 2:
				r.OracleScriptID = x
			case 4:
				r.AskCount = x
			case 5:
				r.MinCount = x
			case 6:
				r.RequestID = x
			case 7:
				r.AnsCount = x
			case 8:
				r.RequestTime = int64(x)
			case 9:
				r.ResolveTime = int64(x)
			case 10:
				r.ResolveStatus = int32(x)
			default:
				return r, fmt.Errorf("unexpected varint field %d", field)
			}
		case 2:
			l, n, err := pbGetVarint(body)
			if err != nil {
				return r, err
			}
			body = body[n:]
			if l > uint64(len(body)) {
				return r, errors.New("truncated bytes field")
			}
			data := append([]byte(nil), body[:l]...)
			body = body[l:]
			switch field {
			case 1:
				r.ClientID = string(data)
			case 3:
				r.Calldata = data
			case 11:
				r.Result = data
			default:
				return r, fmt.Errorf("unexpected bytes field %d", field)
			}
		default:
			return r, fmt.Errorf("unexpected wire type %d (field %d)", wt, field)
		}
	}
	return r, nil
}
