package ref

import (
	"bytes"
	"math/big"
	"testing"

	"github.com/bandprotocol/chain/v3/pkg/tss/testutil"
)

// TestRefVerifierFixtures validates the independent TSS reference (challenge format, verifier, Lagrange, partial
// signature, commitment and binding factor) against the signings RECORDED in /repo/pkg/tss/testutil: only the
// recorded byte strings are used, no function of pkg/tss is called.
func TestRefVerifierFixtures(t *testing.T) {
	nSignings, nFlips := 0, 0
	for _, tc := range testutil.TestCases {
		g := tc.Group
		for _, s := range tc.Signings {
			nSignings++
			sig := []byte(s.Signature)
			if err := TSSVerifyGroupSignature(g.PubKey, s.Data, sig); err != nil {
				t.Fatalf("%s signing %d: recorded group signature rejected: %v", tc.Name, s.ID, err)
			}
			if !bytes.Equal(sig[:33], s.PubNonce) {
				t.Fatalf("%s signing %d: recorded signature R differs from the recorded group nonce", tc.Name, s.ID)
			}
			// every single flipped bit of the signature, the message or the key must be rejected
			for bit := 0; bit < len(sig)*8; bit++ {
				m := append([]byte{}, sig...)
				m[bit/8] ^= 1 << (bit % 8)
				if TSSVerifyGroupSignature(g.PubKey, s.Data, m) == nil {
					t.Fatalf("%s signing %d: signature with bit %d flipped accepted", tc.Name, s.ID, bit)
				}
				nFlips++
			}
			for bit := 0; bit < len(s.Data)*8; bit++ {
				m := append([]byte{}, s.Data...)
				m[bit/8] ^= 1 << (bit % 8)
				if TSSVerifyGroupSignature(g.PubKey, m, sig) == nil {
					t.Fatalf("%s signing %d: message with bit %d flipped accepted", tc.Name, s.ID, bit)
				}
				nFlips++
			}
			for bit := 0; bit < len(g.PubKey)*8; bit++ {
				k := append([]byte{}, g.PubKey...)
				k[bit/8] ^= 1 << (bit % 8)
				if TSSVerifyGroupSignature(k, s.Data, sig) == nil {
					t.Fatalf("%s signing %d: key with bit %d flipped accepted", tc.Name, s.ID, bit)
				}
				nFlips++
			}
			if TSSVerifyGroupSignature(g.PubKey, append(append([]byte{}, s.Data...), 0), sig) == nil ||
				TSSVerifyGroupSignature(g.PubKey, nil, sig) == nil {
				t.Fatalf("%s signing %d: other message accepted", tc.Name, s.ID)
			}
			if TSSVerifyGroupSignature(g.PubKey, s.Data, append(append([]byte{}, sig...), 0)) == nil ||
				TSSVerifyGroupSignature(g.PubKey, s.Data, sig[:64]) == nil {
				t.Fatalf("%s signing %d: signature of wrong length accepted", tc.Name, s.ID)
			}

			// members: Lagrange, commitment, binding factor, partial signature
			var ids []uint64
			var ds, es, nonces [][]byte
			for _, am := range s.AssignedMembers {
				ids = append(ids, uint64(am.ID))
				ds = append(ds, TSSBaseMul(new(big.Int).SetBytes(am.PrivD)))
				es = append(es, TSSBaseMul(new(big.Int).SetBytes(am.PrivE)))
				nonces = append(nonces, TSSBaseMul(new(big.Int).SetBytes(am.PrivNonce)))
			}
			sorted := true
			for i := 1; i < len(ids); i++ {
				sorted = sorted && ids[i-1] < ids[i]
			}
			commitment := TSSCommitment(ids, ds, es)
			if sorted && !bytes.Equal(commitment, s.Commitment) {
				t.Fatalf("%s signing %d: commitment differs from the recorded one", tc.Name, s.ID)
			}
			sum, err := TSSAddPoints(nonces...)
			if err != nil || !bytes.Equal(sum, s.PubNonce) {
				t.Fatalf("%s signing %d: sum of own nonces differs from the recorded group nonce (%v)", tc.Name, s.ID, err)
			}
			c, err := TSSChallenge(s.PubNonce, g.PubKey, s.Data)
			if err != nil {
				t.Fatal(err)
			}
			var key []byte
			zsum := new(big.Int)
			for _, am := range s.AssignedMembers {
				lam, err := TSSLagrange(uint64(am.ID), ids)
				if err != nil || !bytes.Equal(TSSScalarBytes(lam), am.Lagrange) {
					t.Fatalf("%s signing %d member %d: Lagrange %x, recorded %x (%v)", tc.Name, s.ID, am.ID, TSSScalarBytes(lam), []byte(am.Lagrange), err)
				}
				rho := TSSBindingFactor(uint64(am.ID), s.Data, s.Commitment)
				if !bytes.Equal(TSSScalarBytes(rho), am.BindingFactor) {
					t.Fatalf("%s signing %d member %d: binding factor differs from the recorded one", tc.Name, s.ID, am.ID)
				}
				x := new(big.Int).SetBytes(g.GetMember(am.ID).PrivKey)
				ps, k, err := TSSPartialSignature(new(big.Int).SetBytes(am.PrivD), new(big.Int).SetBytes(am.PrivE), rho, lam, x, c)
				if err != nil || !bytes.Equal(ps, am.Signature) {
					t.Fatalf("%s signing %d member %d: reference share %x, recorded %x (%v)", tc.Name, s.ID, am.ID, ps, []byte(am.Signature), err)
				}
				if !bytes.Equal(TSSScalarBytes(k), am.PrivNonce) {
					t.Fatalf("%s signing %d member %d: nonce differs from the recorded one", tc.Name, s.ID, am.ID)
				}
				own := TSSBaseMul(x)
				if err := TSSVerifyPartial(s.PubNonce, g.PubKey, s.Data, lam, am.Signature, own); err != nil {
					t.Fatalf("%s signing %d member %d: recorded share rejected: %v", tc.Name, s.ID, am.ID, err)
				}
				bad := append([]byte{}, am.Signature...)
				bad[64] ^= 1
				if TSSVerifyPartial(s.PubNonce, g.PubKey, s.Data, lam, bad, own) == nil {
					t.Fatalf("%s signing %d member %d: share with flipped bit accepted", tc.Name, s.ID, am.ID)
				}
				part, err := TSSPointMul(own, lam)
				if err != nil {
					t.Fatal(err)
				}
				if key == nil {
					key = part
				} else if key, err = TSSAddPoints(key, part); err != nil {
					t.Fatal(err)
				}
				zsum.Add(zsum, new(big.Int).SetBytes(am.Signature[33:]))
			}
			// Σ λ_i·Y_i is the group key and Σ z_i the published scalar
			if !bytes.Equal(key, g.PubKey) {
				t.Fatalf("%s signing %d: interpolated group key %x differs from the recorded %x", tc.Name, s.ID, key, []byte(g.PubKey))
			}
			if !bytes.Equal(TSSScalarBytes(zsum), sig[33:]) {
				t.Fatalf("%s signing %d: sum of recorded shares differs from the recorded signature", tc.Name, s.ID)
			}
		}
	}
	if nSignings < 4 || nFlips < 2000 {
		t.Fatalf("fixtures too small: %d signings, %d flips", nSignings, nFlips)
	}
	t.Logf("validated against %d recorded signings, %d single-bit corruptions rejected", nSignings, nFlips)
}
