package ref

// Reference model of the three per-block reward stages (oracle share, bandtss share, SDK distribution of the
// rest), written with math/big on 18-decimal fixed point numbers from the mechanism description of property
// C14: percentages and community tax are truncating, validator shares are proportional to voting power
// (fraction truncated to 18 decimals), members share equally (fraction 1/n truncated to 18 decimals), whatever
// rounding leaves over goes to the proposer (oracle stage) or the community pool (bandtss, distribution).
//
// Nothing here uses the SDK's Dec/Coins arithmetic.

import (
	"math/big"
	"sort"
)

// Scale is 10^18: a "dec" below is an integer number of 10^-18 units.
var Scale = new(big.Int).Exp(big.NewInt(10), big.NewInt(18), nil)

// Amounts maps denom -> non-negative integer (whole coins) or dec (10^-18 units), as documented per use.
type Amounts map[string]*big.Int

func (a Amounts) Get(d string) *big.Int {
	if v, ok := a[d]; ok && v != nil {
		return v
	}
	return new(big.Int)
}

// Denoms returns the denoms with a non-zero amount, sorted.
func (a Amounts) Denoms() []string {
	var ds []string
	for d, v := range a {
		if v != nil && v.Sign() != 0 {
			ds = append(ds, d)
		}
	}
	sort.Strings(ds)
	return ds
}

func (a Amounts) Clone() Amounts {
	out := Amounts{}
	for d, v := range a {
		if v != nil {
			out[d] = new(big.Int).Set(v)
		}
	}
	return out
}

// AddTo adds b into a (in place) and returns a.
func (a Amounts) AddTo(b Amounts) Amounts {
	for d, v := range b {
		if v == nil {
			continue
		}
		a[d] = new(big.Int).Add(a.Get(d), v)
	}
	return a
}

// SubFrom subtracts b from a (in place) and returns a.
func (a Amounts) SubFrom(b Amounts) Amounts {
	for d, v := range b {
		if v == nil {
			continue
		}
		a[d] = new(big.Int).Sub(a.Get(d), v)
	}
	return a
}

// Scaled returns a copy multiplied by 10^18 (whole coins -> dec).
func (a Amounts) Scaled() Amounts {
	out := Amounts{}
	for d, v := range a {
		if v != nil {
			out[d] = new(big.Int).Mul(v, Scale)
		}
	}
	return out
}

func (a Amounts) IsZero() bool { return len(a.Denoms()) == 0 }

// Equal compares two amount sets treating missing denoms as zero.
func (a Amounts) Equal(b Amounts) bool {
	for d, v := range a {
		if v != nil && v.Cmp(b.Get(d)) != 0 {
			return false
		}
	}
	for d, v := range b {
		if v != nil && v.Cmp(a.Get(d)) != 0 {
			return false
		}
	}
	return true
}

// PercentOf returns floor(pool * pct / 100) per denom (whole coins).
func PercentOf(pool Amounts, pct uint64) Amounts {
	out := Amounts{}
	for _, d := range pool.Denoms() {
		x := new(big.Int).Mul(pool[d], new(big.Int).SetUint64(pct))
		out[d] = x.Quo(x, big.NewInt(100))
	}
	return out
}

// OracleStage is the expected outcome of the oracle reward stage.
type OracleStage struct {
	Ran       bool
	Share     Amounts   // whole coins moved fee collector -> distribution
	Community Amounts   // whole coins credited to the community pool (tax off the top)
	PerVal    []Amounts // dec credited to each validator's outstanding rewards (includes the proposer's remainder)
	Remainder Amounts   // dec that rounding left over (credited to the proposer; already included in PerVal)
	Indiv     bool      // >=2 active validators and some reward*power not divisible by total power (non-divisible amount)
}

// RewardOracle computes the oracle stage. tax is a dec in [0,10^18]. powers[i]/active[i] describe the validators of
// the last commit in order; proposer indexes into them.
func RewardOracle(pool Amounts, pct uint64, tax *big.Int, powers []int64, active []bool, proposer int) OracleStage {
	st := OracleStage{PerVal: make([]Amounts, len(powers))}
	for i := range st.PerVal {
		st.PerVal[i] = Amounts{}
	}
	total := new(big.Int)
	nActive := 0
	for i, p := range powers {
		if active[i] {
			total.Add(total, big.NewInt(p))
			nActive++
		}
	}
	if total.Sign() == 0 {
		return st
	}
	st.Ran = true
	st.Share = PercentOf(pool, pct)
	st.Community = Amounts{}
	st.Remainder = Amounts{}
	for _, d := range st.Share.Denoms() {
		share := st.Share[d]
		// community tax, truncated to whole coins
		fund := new(big.Int).Mul(share, tax)
		fund.Quo(fund, Scale)
		st.Community[d] = fund
		reward := new(big.Int).Sub(share, fund) // whole coins left for validators
		remaining := new(big.Int).Mul(reward, Scale)
		for i, p := range powers {
			if !active[i] {
				continue
			}
			frac := new(big.Int).Mul(big.NewInt(p), Scale)
			frac.Quo(frac, total) // power/total truncated to 18 decimals
			r := new(big.Int).Mul(reward, frac)
			st.PerVal[i][d] = r
			remaining.Sub(remaining, r)
			if nActive >= 2 && new(big.Int).Mod(new(big.Int).Mul(reward, big.NewInt(p)), total).Sign() != 0 {
				st.Indiv = true
			}
		}
		st.Remainder[d] = remaining
		if proposer >= 0 && proposer < len(powers) {
			st.PerVal[proposer][d] = new(big.Int).Add(st.PerVal[proposer].Get(d), remaining)
		}
	}
	return st
}

// BandtssStage is the expected outcome of the bandtss reward stage.
type BandtssStage struct {
	Ran         bool
	Share       Amounts // whole coins moved fee collector -> distribution
	PerMember   Amounts // whole coins paid to each eligible member
	Community   Amounts // whole coins credited to the community pool (tax + rounding)
	IdealDiffer bool    // the fixed-point member reward differs from floor(share*(1-tax)/n) computed exactly (statistic)
	Indiv       bool    // n>=2 and share*(1-tax) is not divisible by n
}

// RewardBandtss computes the bandtss stage for n eligible members (n==0: the stage does not run).
func RewardBandtss(pool Amounts, pct uint64, tax *big.Int, n int) BandtssStage {
	st := BandtssStage{}
	if n <= 0 {
		return st
	}
	st.Ran = true
	st.Share = PercentOf(pool, pct)
	st.PerMember = Amounts{}
	st.Community = Amounts{}
	keep := new(big.Int).Sub(Scale, tax) // 1 - tax
	frac := new(big.Int).Quo(Scale, big.NewInt(int64(n)))
	for _, d := range st.Share.Denoms() {
		share := st.Share[d]
		a := new(big.Int).Mul(share, keep) // dec: share*(1-tax), exact
		b := new(big.Int).Mul(a, frac)
		b.Quo(b, Scale) // dec: times 1/n, truncated
		per := new(big.Int).Quo(b, Scale)
		st.PerMember[d] = per
		st.Community[d] = new(big.Int).Sub(share, new(big.Int).Mul(per, big.NewInt(int64(n))))
		den := new(big.Int).Mul(Scale, big.NewInt(int64(n)))
		ideal := new(big.Int).Quo(a, den)
		if ideal.Cmp(per) != 0 {
			st.IdealDiffer = true
		}
		if n >= 2 && new(big.Int).Mod(a, den).Sign() != 0 {
			st.Indiv = true
		}
	}
	return st
}

// DistrStage is what the SDK distribution module does with the rest of the fee collector.
type DistrStage struct {
	Moved     Amounts   // whole coins moved fee collector -> distribution (everything)
	PerVal    []Amounts // dec credited to each validator's outstanding rewards
	Community Amounts   // dec credited to the community pool
}

// RewardDistr: every validator of the last commit gets trunc(trunc(rest*(1-tax)) * trunc(power/total)), the
// community pool the remainder.
func RewardDistr(pool Amounts, tax *big.Int, powers []int64) DistrStage {
	st := DistrStage{Moved: Amounts{}, PerVal: make([]Amounts, len(powers)), Community: Amounts{}}
	for i := range st.PerVal {
		st.PerVal[i] = Amounts{}
	}
	total := new(big.Int)
	for _, p := range powers {
		total.Add(total, big.NewInt(p))
	}
	keep := new(big.Int).Sub(Scale, tax)
	for _, d := range pool.Denoms() {
		st.Moved[d] = new(big.Int).Set(pool[d])
		remaining := new(big.Int).Mul(pool[d], Scale)
		if total.Sign() == 0 {
			st.Community[d] = remaining
			continue
		}
		mult := new(big.Int).Mul(pool[d], keep) // dec, exact
		for i, p := range powers {
			frac := new(big.Int).Mul(big.NewInt(p), Scale)
			frac.Quo(frac, total)
			r := new(big.Int).Mul(mult, frac)
			r.Quo(r, Scale)
			st.PerVal[i][d] = r
			remaining.Sub(remaining, r)
		}
		st.Community[d] = remaining
	}
	return st
}
