package ref

// Independent reference for BAND-TSS threshold Schnorr signing on secp256k1 (property C03), written from the
// property statement:
//
//	challenge c = keccak256("BAND-TSS-secp256k1-v0" ‖ 0x00 ‖ "challenge" ‖ 0x00 ‖ address(R) ‖ parity(P)+25 ‖ Px ‖ keccak256(msg)) mod n
//	address(R)  = last 20 bytes of keccak256(Rx ‖ Ry)           (the Ethereum address of the nonce point)
//	parity(P)   = 0x02 if Py is even, 0x03 if Py is odd          (so the byte is 27 or 28, as ecrecover's v)
//	a signature (R, z) is valid for (P, msg) iff z·G == R + c·P
//	λ_i(S)      = Π_{j∈S, j≠i} j/(j−i) mod n                     (Lagrange coefficient at 0)
//	z_i         = d_i + e_i·ρ_i + λ_i·x_i·c mod n,  R_i = (d_i + e_i·ρ_i)·G
//
// Only math/big, keccak256 and the group operations of decred's secp256k1 are used; nothing of
// github.com/bandprotocol/chain/v3/pkg/tss is imported.

import (
	"encoding/binary"
	"errors"
	"fmt"
	"math/big"

	"github.com/decred/dcrd/dcrec/secp256k1/v4"
	"golang.org/x/crypto/sha3"
)

// TSSContext is the domain separation string of the scheme.
const TSSContext = "BAND-TSS-secp256k1-v0"

// TSSN is the order of the secp256k1 group.
var TSSN, _ = new(big.Int).SetString("fffffffffffffffffffffffffffffffebaaedce6af48a03bbfd25e8cd0364141", 16)

// Keccak256 is the legacy (Ethereum) Keccak-256 of the concatenation of parts.
func Keccak256(parts ...[]byte) []byte {
	h := sha3.NewLegacyKeccak256()
	for _, p := range parts {
		h.Write(p)
	}
	return h.Sum(nil)
}

// TSSScalarBytes is the 32-byte big-endian encoding of x mod n.
func TSSScalarBytes(x *big.Int) []byte {
	b := make([]byte, 32)
	new(big.Int).Mod(x, TSSN).FillBytes(b)
	return b
}

func modN(x *big.Int) *big.Int { return new(big.Int).Mod(x, TSSN) }

func toModN(x *big.Int) *secp256k1.ModNScalar {
	var s secp256k1.ModNScalar
	s.SetByteSlice(TSSScalarBytes(x))
	return &s
}

// tssPoint is an affine point or the point at infinity.
type tssPoint struct {
	inf bool
	p   secp256k1.JacobianPoint // affine (Z=1) when !inf
}

func normalise(j *secp256k1.JacobianPoint) tssPoint {
	if j.Z.IsZero() || (j.X.IsZero() && j.Y.IsZero()) {
		return tssPoint{inf: true}
	}
	q := *j
	q.ToAffine()
	return tssPoint{p: q}
}

func (a tssPoint) equal(b tssPoint) bool {
	if a.inf || b.inf {
		return a.inf && b.inf
	}
	return a.p.X.Equals(&b.p.X) && a.p.Y.Equals(&b.p.Y)
}

func (a tssPoint) add(b tssPoint) tssPoint {
	if a.inf {
		return b
	}
	if b.inf {
		return a
	}
	var r secp256k1.JacobianPoint
	secp256k1.AddNonConst(&a.p, &b.p, &r)
	return normalise(&r)
}

func (a tssPoint) mul(k *big.Int) tssPoint {
	k = modN(k)
	if a.inf || k.Sign() == 0 {
		return tssPoint{inf: true}
	}
	var r secp256k1.JacobianPoint
	secp256k1.ScalarMultNonConst(toModN(k), &a.p, &r)
	return normalise(&r)
}

func baseMul(k *big.Int) tssPoint {
	k = modN(k)
	if k.Sign() == 0 {
		return tssPoint{inf: true}
	}
	var r secp256k1.JacobianPoint
	secp256k1.ScalarBaseMultNonConst(toModN(k), &r)
	return normalise(&r)
}

// xy returns the 32-byte big-endian affine coordinates.
func (a tssPoint) xy() (x, y [32]byte) {
	a.p.X.PutBytes(&x)
	a.p.Y.PutBytes(&y)
	return
}

// bytes is the 33-byte compressed encoding (0x02 even y / 0x03 odd y, then x); nil for infinity.
func (a tssPoint) bytes() []byte {
	if a.inf {
		return nil
	}
	x, y := a.xy()
	out := make([]byte, 33)
	out[0] = 0x02 + (y[31] & 1)
	copy(out[1:], x[:])
	return out
}

// parsePoint accepts exactly the 33-byte compressed encoding of a curve point.
func parsePoint(b []byte) (tssPoint, error) {
	if len(b) != 33 || (b[0] != 0x02 && b[0] != 0x03) {
		return tssPoint{}, fmt.Errorf("not a 33-byte compressed point")
	}
	pk, err := secp256k1.ParsePubKey(b)
	if err != nil {
		return tssPoint{}, err
	}
	var j secp256k1.JacobianPoint
	pk.AsJacobian(&j)
	return normalise(&j), nil
}

// TSSBaseMul returns the compressed encoding of k·G (nil if k ≡ 0).
func TSSBaseMul(k *big.Int) []byte { return baseMul(k).bytes() }

// TSSPointMul returns the compressed encoding of k·P.
func TSSPointMul(p []byte, k *big.Int) ([]byte, error) {
	pt, err := parsePoint(p)
	if err != nil {
		return nil, err
	}
	return pt.mul(k).bytes(), nil
}

// TSSAddPoints returns the compressed encoding of the sum (nil if the sum is the point at infinity).
func TSSAddPoints(ps ...[]byte) ([]byte, error) {
	acc := tssPoint{inf: true}
	for i, p := range ps {
		pt, err := parsePoint(p)
		if err != nil {
			return nil, fmt.Errorf("point %d: %w", i, err)
		}
		acc = acc.add(pt)
	}
	return acc.bytes(), nil
}

// TSSAddress is the Ethereum address of a point: last 20 bytes of keccak256(x ‖ y).
func TSSAddress(p []byte) ([]byte, error) {
	pt, err := parsePoint(p)
	if err != nil {
		return nil, err
	}
	x, y := pt.xy()
	return Keccak256(x[:], y[:])[12:], nil
}

// TSSChallenge computes the BAND-TSS challenge for nonce point R, public key P and message msg, reduced mod n.
func TSSChallenge(r, p, msg []byte) (*big.Int, error) {
	addr, err := TSSAddress(r)
	if err != nil {
		return nil, fmt.Errorf("nonce point: %w", err)
	}
	pk, err := parsePoint(p)
	if err != nil {
		return nil, fmt.Errorf("public key: %w", err)
	}
	px, py := pk.xy()
	parity := byte(27) + (py[31] & 1)
	h := Keccak256([]byte(TSSContext), []byte{0}, []byte("challenge"), []byte{0}, addr, []byte{parity}, px[:], Keccak256(msg))
	return modN(new(big.Int).SetBytes(h)), nil
}

// TSSSplitSignature splits a 65-byte signature into R (33 bytes, compressed) and z (< n).
func TSSSplitSignature(sig []byte) (r []byte, z *big.Int, err error) {
	if len(sig) != 65 {
		return nil, nil, fmt.Errorf("signature length %d != 65", len(sig))
	}
	z = new(big.Int).SetBytes(sig[33:])
	if z.Cmp(TSSN) >= 0 {
		return nil, nil, errors.New("z >= n")
	}
	if _, err := parsePoint(sig[:33]); err != nil {
		return nil, nil, fmt.Errorf("R: %w", err)
	}
	return sig[:33], z, nil
}

// TSSVerifyEquation checks z·G == R + c·Y.
func TSSVerifyEquation(r []byte, z, c *big.Int, y []byte) error {
	rp, err := parsePoint(r)
	if err != nil {
		return fmt.Errorf("R: %w", err)
	}
	yp, err := parsePoint(y)
	if err != nil {
		return fmt.Errorf("Y: %w", err)
	}
	if !baseMul(z).equal(rp.add(yp.mul(c))) {
		return errors.New("z*G != R + c*Y")
	}
	return nil
}

// TSSVerifyGroupSignature is the independent verifier of a published group signature: nil iff sig = (R, z) is
// well-formed and z·G == R + c·P with c = TSSChallenge(R, P, msg).
func TSSVerifyGroupSignature(groupPubKey, msg, sig []byte) error {
	r, z, err := TSSSplitSignature(sig)
	if err != nil {
		return err
	}
	c, err := TSSChallenge(r, groupPubKey, msg)
	if err != nil {
		return err
	}
	return TSSVerifyEquation(r, z, c, groupPubKey)
}

// TSSVerifyPartial checks a member's share (R_i, z_i) of a signing with group nonce R, group key P and message msg:
// z_i·G == R_i + c·λ_i·Y_i with c = TSSChallenge(R, P, msg). It does NOT check that R_i is the assigned nonce.
func TSSVerifyPartial(groupNonce, groupPubKey, msg []byte, lambda *big.Int, sig, ownPubKey []byte) error {
	c, err := TSSChallenge(groupNonce, groupPubKey, msg)
	if err != nil {
		return err
	}
	return TSSVerifyPartialWithChallenge(c, lambda, sig, ownPubKey)
}

// TSSVerifyPartialWithChallenge is TSSVerifyPartial for an already computed challenge c.
func TSSVerifyPartialWithChallenge(c, lambda *big.Int, sig, ownPubKey []byte) error {
	r, z, err := TSSSplitSignature(sig)
	if err != nil {
		return err
	}
	return TSSVerifyEquation(r, z, new(big.Int).Mul(c, lambda), ownPubKey)
}

// TSSLagrange is λ_i(S) = Π_{j∈S, j≠i} j/(j−i) mod n over math/big. ids must be distinct, non-zero and contain i.
func TSSLagrange(i uint64, ids []uint64) (*big.Int, error) {
	seen := make(map[uint64]bool, len(ids))
	for _, j := range ids {
		if j == 0 {
			return nil, errors.New("member id 0")
		}
		if seen[j] {
			return nil, fmt.Errorf("duplicate member id %d", j)
		}
		seen[j] = true
	}
	if !seen[i] {
		return nil, fmt.Errorf("member id %d not in the set", i)
	}
	num, den := big.NewInt(1), big.NewInt(1)
	bi := new(big.Int).SetUint64(i)
	for _, j := range ids {
		if j == i {
			continue
		}
		bj := new(big.Int).SetUint64(j)
		num.Mod(num.Mul(num, bj), TSSN)
		den.Mod(den.Mul(den, new(big.Int).Sub(bj, bi)), TSSN)
	}
	inv := new(big.Int).ModInverse(den, TSSN)
	if inv == nil {
		return nil, errors.New("denominator not invertible")
	}
	return num.Mod(num.Mul(num, inv), TSSN), nil
}

// TSSEvalPoly evaluates f(x) = Σ coef[k]·x^k mod n.
func TSSEvalPoly(coef []*big.Int, x uint64) *big.Int {
	acc := new(big.Int)
	bx := new(big.Int).SetUint64(x)
	for k := len(coef) - 1; k >= 0; k-- {
		acc.Mul(acc, bx)
		acc.Add(acc, coef[k])
		acc.Mod(acc, TSSN)
	}
	return acc
}

// TSSPartialSignature is the reference share of one member: nonce k = d + e·ρ, R_i = k·G, z_i = k + λ·x·c (mod n).
// It returns the 65-byte encoding R_i ‖ z_i and k.
func TSSPartialSignature(d, e, rho, lambda, x, c *big.Int) (sig []byte, k *big.Int, err error) {
	k = modN(new(big.Int).Add(d, new(big.Int).Mul(e, rho)))
	r := baseMul(k).bytes()
	if r == nil {
		return nil, nil, errors.New("nonce is zero")
	}
	z := new(big.Int).Mul(lambda, x)
	z.Mul(z, c)
	z.Add(z, k)
	return append(append([]byte{}, r...), TSSScalarBytes(z)...), k, nil
}

// TSSCommitment is the signing commitment list B = ⟨id_i (8 bytes big endian) ‖ D_i ‖ E_i⟩ in the order given.
func TSSCommitment(ids []uint64, ds, es [][]byte) []byte {
	var out []byte
	for i, id := range ids {
		out = binary.BigEndian.AppendUint64(out, id)
		out = append(out, ds[i]...)
		out = append(out, es[i]...)
	}
	return out
}

// TSSBindingFactor is ρ_i = keccak256(ctx ‖ "bindingFactor" ‖ id ‖ keccak256(ctx ‖ "signMsg" ‖ msg) ‖
// keccak256(ctx ‖ "signCommitment" ‖ B)) mod n. The challenge format is fixed by the property statement; this one
// is the module's documented derivation and is only used for statistics and for fixture validation.
func TSSBindingFactor(id uint64, msg, commitment []byte) *big.Int {
	ctx := []byte(TSSContext)
	h := Keccak256(ctx, []byte("bindingFactor"), binary.BigEndian.AppendUint64(nil, id),
		Keccak256(ctx, []byte("signMsg"), msg), Keccak256(ctx, []byte("signCommitment"), commitment))
	return modN(new(big.Int).SetBytes(h))
}
