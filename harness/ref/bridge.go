// bridge.go is a Go port of the verification algorithm a destination chain ("Bridge") runs on a BandChain relay
// proof. It is written from the property statement (C12) and the field names of the proof structs, not from the
// chain's own proof package: nothing in here imports bandprotocol/chain. Hashing is plain SHA-256, signature
// recovery is go-ethereum's ecrecover, ABI decoding is go-ethereum's abi package with argument lists written here.
//
// Algorithm (what a destination chain checks):
//
//	leaf      = H(0x00 | 0x02 | zz(version) | len(key) key | 0x20 | H(value))       value = proto(result) or be64(count)
//	parent    = H(zz(height) | zz(size) | zz(version) | 0x20 left | 0x20 right)      left/right from IsDataOnRight
//	storeLeaf = H(0x00 | 0x06 "oracle" | 0x20 | H(oracleIAVLStateHash))
//	appHash   = I(authToIcahost, I(I(I(I(mint, storeLeaf), paramsToRestake), rollingseedToTransfer), tssToUpgrade))
//	blockHash = I(I(I(versionAndChainId, I(L(08 uv(height)), L(time))), lastBlockIdAndOther),
//	              I(I(nextValidatorAndConsensus, I(L(0a 20 appHash), lastResults)), evidenceAndProposer))
//	voteMsg   = len | prefix | blockHash | suffix | 2a len(ts) ts | 32 len(chain) chain ; signer = ecrecover(H(voteMsg), v, r, s)
//
// with H = sha256, L(x) = H(0x00|x), I(a,b) = H(0x01|a|b), zz = zig-zag varint, uv = unsigned varint.
package ref

import (
	"bytes"
	"crypto/sha256"
	"encoding/binary"
	"encoding/json"
	"fmt"
	"math/big"

	"github.com/ethereum/go-ethereum/accounts/abi"
	ethcrypto "github.com/ethereum/go-ethereum/crypto"
)

// ---- data (the relay/verify arguments of the bridge) -------------------------------------------------------

type BridgeIAVLStep struct {
	IsDataOnRight  bool
	SubtreeHeight  uint32
	SubtreeSize    uint64
	SubtreeVersion uint64
	SiblingHash    []byte
}

type BridgeMultiStore struct {
	OracleIAVLStateHash                   []byte
	MintStoreMerkleHash                   []byte
	ParamsToRestakeStoresMerkleHash       []byte
	RollingseedToTransferStoresMerkleHash []byte
	TssToUpgradeStoresMerkleHash          []byte
	AuthToIcahostStoresMerkleHash         []byte
}

type BridgeHeaderParts struct {
	VersionAndChainIdHash             []byte
	Height                            uint64
	TimeSecond                        uint64
	TimeNanoSecond                    uint32
	LastBlockIdAndOther               []byte
	NextValidatorHashAndConsensusHash []byte
	LastResultsHash                   []byte
	EvidenceAndProposerHash           []byte
}

type BridgeCommonVote struct {
	SignedDataPrefix []byte
	SignedDataSuffix []byte
}

type BridgeSignature struct {
	R, S             []byte
	V                uint32
	EncodedTimestamp []byte
}

type BridgeRelay struct {
	MultiStore BridgeMultiStore
	Parts      BridgeHeaderParts
	Common     BridgeCommonVote
	Signatures []BridgeSignature
}

type BridgeResult struct {
	ClientID       string
	OracleScriptID uint64
	Params         []byte
	AskCount       uint64
	MinCount       uint64
	RequestID      uint64
	AnsCount       uint64
	RequestTime    uint64
	ResolveTime    uint64
	ResolveStatus  uint8
	Result         []byte
}

type BridgeOracleData struct {
	BlockHeight uint64
	Result      BridgeResult
	Version     uint64
	Paths       []BridgeIAVLStep
}

type BridgeCountData struct {
	BlockHeight uint64
	Count       uint64
	Version     uint64
	Paths       []BridgeIAVLStep
}

// ---- primitive encodings -----------------------------------------------------------------------------------

func bridgeUvarint(x uint64) []byte {
	var out []byte
	for x >= 0x80 {
		out = append(out, byte(x)|0x80)
		x >>= 7
	}
	return append(out, byte(x))
}

// zig-zag ("signed") varint as used by the IAVL node encoding.
func bridgeSvarint(x int64) []byte { return bridgeUvarint(uint64(x<<1) ^ uint64(x>>63)) }

func bridgeSHA(parts ...[]byte) []byte {
	h := sha256.New()
	for _, p := range parts {
		h.Write(p)
	}
	return h.Sum(nil)
}

func bridgeLeaf(x []byte) []byte     { return bridgeSHA([]byte{0}, x) }
func bridgeInner(l, r []byte) []byte { return bridgeSHA([]byte{1}, l, r) }

// BridgeEncodeResult is the canonical proto3 encoding of an oracle result (fields 1..11, defaults omitted).
func BridgeEncodeResult(r BridgeResult) []byte {
	var b []byte
	str := func(tag byte, v []byte) {
		if len(v) > 0 {
			b = append(b, tag)
			b = append(b, bridgeUvarint(uint64(len(v)))...)
			b = append(b, v...)
		}
	}
	num := func(tag byte, v uint64) {
		if v != 0 {
			b = append(b, tag)
			b = append(b, bridgeUvarint(v)...)
		}
	}
	str(1<<3|2, []byte(r.ClientID))
	num(2<<3, r.OracleScriptID)
	str(3<<3|2, r.Params)
	num(4<<3, r.AskCount)
	num(5<<3, r.MinCount)
	num(6<<3, r.RequestID)
	num(7<<3, r.AnsCount)
	num(8<<3, r.RequestTime)
	num(9<<3, r.ResolveTime)
	num(10<<3, uint64(r.ResolveStatus))
	str(11<<3|2, r.Result)
	return b
}

// BridgeResultKey is the oracle store key of a result: 0xff | big-endian request id.
func BridgeResultKey(id uint64) []byte {
	k := make([]byte, 9)
	k[0] = 0xff
	binary.BigEndian.PutUint64(k[1:], id)
	return k
}

// BridgeCountKey is the oracle store key of the request count: 0x00 | "RequestCount".
func BridgeCountKey() []byte { return append([]byte{0}, []byte("RequestCount")...) }

// BridgeIAVLLeaf hashes an IAVL leaf node (height 0, size 1) holding value under key, written at version.
func BridgeIAVLLeaf(key, value []byte, version uint64) []byte {
	return bridgeSHA([]byte{0, 2}, bridgeSvarint(int64(version)), bridgeUvarint(uint64(len(key))), key, []byte{32}, bridgeSHA(value))
}

// BridgeIAVLRoot walks the path from the leaf hash up to the store root.
func BridgeIAVLRoot(leaf []byte, path []BridgeIAVLStep) ([]byte, error) {
	cur := leaf
	for i, s := range path {
		if len(s.SiblingHash) != 32 {
			return nil, fmt.Errorf("path step %d: sibling hash has %d bytes", i, len(s.SiblingHash))
		}
		l, r := cur, s.SiblingHash
		if s.IsDataOnRight {
			l, r = s.SiblingHash, cur
		}
		cur = bridgeSHA(bridgeSvarint(int64(s.SubtreeHeight)), bridgeSvarint(int64(s.SubtreeSize)), bridgeSvarint(int64(s.SubtreeVersion)),
			[]byte{32}, l, []byte{32}, r)
	}
	return cur, nil
}

// BridgeOracleRoot recomputes the oracle store root a result proof commits to.
func BridgeOracleRoot(d BridgeOracleData) ([]byte, error) {
	leaf := BridgeIAVLLeaf(BridgeResultKey(d.Result.RequestID), BridgeEncodeResult(d.Result), d.Version)
	return BridgeIAVLRoot(leaf, d.Paths)
}

// BridgeCountRoot recomputes the oracle store root a request-count proof commits to.
func BridgeCountRoot(d BridgeCountData) ([]byte, error) {
	v := make([]byte, 8)
	binary.BigEndian.PutUint64(v, d.Count)
	return BridgeIAVLRoot(BridgeIAVLLeaf(BridgeCountKey(), v, d.Version), d.Paths)
}

func need32(name string, b []byte) error {
	if len(b) != 32 {
		return fmt.Errorf("%s has %d bytes, want 32", name, len(b))
	}
	return nil
}

// BridgeAppHash combines the oracle store root with the five named sibling hashes.
func BridgeAppHash(m BridgeMultiStore) ([]byte, error) {
	for _, f := range []struct {
		n string
		b []byte
	}{{"oracleIAVLStateHash", m.OracleIAVLStateHash}, {"mintStoreMerkleHash", m.MintStoreMerkleHash},
		{"paramsToRestakeStoresMerkleHash", m.ParamsToRestakeStoresMerkleHash}, {"rollingseedToTransferStoresMerkleHash", m.RollingseedToTransferStoresMerkleHash},
		{"tssToUpgradeStoresMerkleHash", m.TssToUpgradeStoresMerkleHash}, {"authToIcahostStoresMerkleHash", m.AuthToIcahostStoresMerkleHash}} {
		if err := need32(f.n, f.b); err != nil {
			return nil, err
		}
	}
	storeLeaf := bridgeLeaf(append(append([]byte{6}, []byte("oracle")...), append([]byte{32}, bridgeSHA(m.OracleIAVLStateHash)...)...))
	h := bridgeInner(m.MintStoreMerkleHash, storeLeaf)
	h = bridgeInner(h, m.ParamsToRestakeStoresMerkleHash)
	h = bridgeInner(h, m.RollingseedToTransferStoresMerkleHash)
	h = bridgeInner(h, m.TssToUpgradeStoresMerkleHash)
	return bridgeInner(m.AuthToIcahostStoresMerkleHash, h), nil
}

// BridgeEncodeTime is the timestamp message: seconds (field 1) then nanoseconds (field 2, omitted when zero).
func BridgeEncodeTime(sec uint64, nanos uint32) []byte {
	b := append([]byte{0x08}, bridgeUvarint(sec)...)
	if nanos > 0 {
		b = append(b, 0x10)
		b = append(b, bridgeUvarint(uint64(nanos))...)
	}
	return b
}

// BridgeBlockHash recombines the header parts and the app hash into the block hash.
func BridgeBlockHash(p BridgeHeaderParts, appHash []byte) ([]byte, error) {
	for _, f := range []struct {
		n string
		b []byte
	}{{"versionAndChainIdHash", p.VersionAndChainIdHash}, {"lastBlockIdAndOther", p.LastBlockIdAndOther},
		{"nextValidatorHashAndConsensusHash", p.NextValidatorHashAndConsensusHash}, {"lastResultsHash", p.LastResultsHash},
		{"evidenceAndProposerHash", p.EvidenceAndProposerHash}, {"appHash", appHash}} {
		if err := need32(f.n, f.b); err != nil {
			return nil, err
		}
	}
	heightLeaf := bridgeLeaf(append([]byte{0x08}, bridgeUvarint(p.Height)...))
	timeLeaf := bridgeLeaf(BridgeEncodeTime(p.TimeSecond, p.TimeNanoSecond))
	appLeaf := bridgeLeaf(append([]byte{0x0a, 32}, appHash...))
	left := bridgeInner(bridgeInner(p.VersionAndChainIdHash, bridgeInner(heightLeaf, timeLeaf)), p.LastBlockIdAndOther)
	right := bridgeInner(bridgeInner(p.NextValidatorHashAndConsensusHash, bridgeInner(appLeaf, p.LastResultsHash)), p.EvidenceAndProposerHash)
	return bridgeInner(left, right), nil
}

// BridgeVoteMessage rebuilds the length-prefixed canonical precommit bytes one validator signed. The size limits
// are those of the fixed vote format (prefix with/without round, one-byte part count, 5-byte seconds).
func BridgeVoteMessage(c BridgeCommonVote, blockHash, encodedTimestamp []byte, chainID string) ([]byte, error) {
	if n := len(c.SignedDataPrefix); n != 15 && n != 24 {
		return nil, fmt.Errorf("signed data prefix has %d bytes, want 15 or 24", n)
	}
	if n := len(c.SignedDataSuffix); n != 38 {
		return nil, fmt.Errorf("signed data suffix has %d bytes, want 38", n)
	}
	if n := len(encodedTimestamp); n < 6 || n > 12 {
		return nil, fmt.Errorf("encoded timestamp has %d bytes, want 6..12", n)
	}
	if len(blockHash) != 32 {
		return nil, fmt.Errorf("block hash has %d bytes", len(blockHash))
	}
	if len(chainID) > 255 {
		return nil, fmt.Errorf("chain id too long")
	}
	var m []byte
	m = append(m, c.SignedDataPrefix...)
	m = append(m, blockHash...)
	m = append(m, c.SignedDataSuffix...)
	m = append(m, 42, byte(len(encodedTimestamp)))
	m = append(m, encodedTimestamp...)
	m = append(m, 50, byte(len(chainID)))
	m = append(m, chainID...)
	return append([]byte{byte(len(m))}, m...), nil
}

// BridgeRecover is ecrecover(sha256(msg), v, r, s) returning the 20-byte eth-style address.
func BridgeRecover(msg []byte, s BridgeSignature) ([]byte, error) {
	if len(s.R) != 32 || len(s.S) != 32 {
		return nil, fmt.Errorf("r/s have %d/%d bytes", len(s.R), len(s.S))
	}
	if s.V != 27 && s.V != 28 {
		return nil, fmt.Errorf("v = %d", s.V)
	}
	sig := append(append(append([]byte{}, s.R...), s.S...), byte(s.V-27))
	pub, err := ethcrypto.Ecrecover(bridgeSHA(msg), sig)
	if err != nil {
		return nil, err
	}
	return ethcrypto.Keccak256(pub[1:])[12:], nil
}

// BridgeEthAddress is the eth-style address of a compressed (33-byte) secp256k1 public key.
func BridgeEthAddress(compressed []byte) ([]byte, error) {
	pk, err := ethcrypto.DecompressPubkey(compressed)
	if err != nil {
		return nil, err
	}
	return ethcrypto.Keccak256(ethcrypto.FromECDSAPub(pk)[1:])[12:], nil
}

// BridgeRelayOutcome is what relaying one block establishes.
type BridgeRelayOutcome struct {
	AppHash   []byte
	BlockHash []byte
	Signers   [][]byte // recovered eth addresses, in the order of the signatures
	Messages  [][]byte // the bytes each signer signed
}

// BridgeRelayHeader runs the header and signature part of the algorithm for a given app hash. The returned stage
// tag is "" on success, otherwise "header", "vote", "signature" or "order".
func BridgeRelayHeader(p BridgeHeaderParts, c BridgeCommonVote, sigs []BridgeSignature, appHash []byte, chainID string) (*BridgeRelayOutcome, string, error) {
	out := &BridgeRelayOutcome{AppHash: appHash}
	var err error
	if out.BlockHash, err = BridgeBlockHash(p, appHash); err != nil {
		return out, "header", err
	}
	var last []byte
	for i, s := range sigs {
		msg, err := BridgeVoteMessage(c, out.BlockHash, s.EncodedTimestamp, chainID)
		if err != nil {
			return out, "vote", fmt.Errorf("signature %d: %w", i, err)
		}
		addr, err := BridgeRecover(msg, s)
		if err != nil {
			return out, "signature", fmt.Errorf("signature %d: %w", i, err)
		}
		if last != nil && bytes.Compare(addr, last) <= 0 {
			return out, "order", fmt.Errorf("signature %d: signer %x not above previous %x", i, addr, last)
		}
		last = addr
		out.Signers = append(out.Signers, addr)
		out.Messages = append(out.Messages, msg)
	}
	return out, "", nil
}

// BridgeRelayBlock runs the block part of the algorithm: app hash from the multistore proof, then BridgeRelayHeader.
// Stage tag "multistore" means the app hash could not be computed.
func BridgeRelayBlock(r BridgeRelay, chainID string) (*BridgeRelayOutcome, string, error) {
	app, err := BridgeAppHash(r.MultiStore)
	if err != nil {
		return &BridgeRelayOutcome{}, "multistore", err
	}
	return BridgeRelayHeader(r.Parts, r.Common, r.Signatures, app, chainID)
}

// ---- ABI (the byte blob handed to the destination chain) ----------------------------------------------------

const bridgeIAVLPathABI = `{"name":"merklePaths","type":"tuple[]","components":[
 {"name":"isDataOnRight","type":"bool"},{"name":"subtreeHeight","type":"uint8"},{"name":"subtreeSize","type":"uint256"},
 {"name":"subtreeVersion","type":"uint256"},{"name":"siblingHash","type":"bytes32"}]}`

const bridgeRelayABI = `[
 {"name":"multiStore","type":"tuple","components":[
  {"name":"oracleIAVLStateHash","type":"bytes32"},{"name":"mintStoreMerkleHash","type":"bytes32"},
  {"name":"paramsToRestakeStoresMerkleHash","type":"bytes32"},{"name":"rollingseedToTransferStoresMerkleHash","type":"bytes32"},
  {"name":"tssToUpgradeStoresMerkleHash","type":"bytes32"},{"name":"authToIcahostStoresMerkleHash","type":"bytes32"}]},
 {"name":"merkleParts","type":"tuple","components":[
  {"name":"versionAndChainIdHash","type":"bytes32"},{"name":"height","type":"uint64"},{"name":"timeSecond","type":"uint64"},
  {"name":"timeNanoSecond","type":"uint32"},{"name":"lastBlockIdAndOther","type":"bytes32"},
  {"name":"nextValidatorHashAndConsensusHash","type":"bytes32"},{"name":"lastResultsHash","type":"bytes32"},
  {"name":"evidenceAndProposerHash","type":"bytes32"}]},
 {"name":"commonEncodedVotePart","type":"tuple","components":[
  {"name":"signedDataPrefix","type":"bytes"},{"name":"signedDataSuffix","type":"bytes"}]},
 {"name":"signatures","type":"tuple[]","components":[
  {"name":"r","type":"bytes32"},{"name":"s","type":"bytes32"},{"name":"v","type":"uint8"},{"name":"encodedTimestamp","type":"bytes"}]}]`

const bridgeVerifyABI = `[
 {"name":"blockHeight","type":"uint256"},
 {"name":"result","type":"tuple","components":[
  {"name":"clientID","type":"string"},{"name":"oracleScriptID","type":"uint64"},{"name":"params","type":"bytes"},
  {"name":"askCount","type":"uint64"},{"name":"minCount","type":"uint64"},{"name":"requestID","type":"uint64"},
  {"name":"ansCount","type":"uint64"},{"name":"requestTime","type":"uint64"},{"name":"resolveTime","type":"uint64"},
  {"name":"resolveStatus","type":"uint8"},{"name":"result","type":"bytes"}]},
 {"name":"version","type":"uint256"},` + bridgeIAVLPathABI + `]`

const bridgeVerifyCountABI = `[
 {"name":"blockHeight","type":"uint256"},{"name":"count","type":"uint256"},{"name":"version","type":"uint256"},` + bridgeIAVLPathABI + `]`

func mustArgs(s string) abi.Arguments {
	var a abi.Arguments
	if err := json.Unmarshal([]byte(s), &a); err != nil {
		panic(err)
	}
	return a
}

var (
	bridgeRelayArgs       = mustArgs(bridgeRelayABI)
	bridgeVerifyArgs      = mustArgs(bridgeVerifyABI)
	bridgeVerifyCountArgs = mustArgs(bridgeVerifyCountABI)
	bridgeOuterArgs       = mustArgs(`[{"name":"a","type":"bytes"},{"name":"b","type":"bytes"}]`)
	bridgeOuterMultiArgs  = mustArgs(`[{"name":"a","type":"bytes"},{"name":"b","type":"bytes[]"}]`)
)

type abiPath struct {
	IsDataOnRight  bool
	SubtreeHeight  uint8
	SubtreeSize    *big.Int
	SubtreeVersion *big.Int
	SiblingHash    [32]byte
}

func u64(name string, b *big.Int) (uint64, error) {
	if b == nil || !b.IsUint64() {
		return 0, fmt.Errorf("%s = %v does not fit uint64", name, b)
	}
	return b.Uint64(), nil
}

func convPaths(in []abiPath) ([]BridgeIAVLStep, error) {
	out := make([]BridgeIAVLStep, 0, len(in))
	for i, p := range in {
		sz, err := u64(fmt.Sprintf("path[%d].subtreeSize", i), p.SubtreeSize)
		if err != nil {
			return nil, err
		}
		ver, err := u64(fmt.Sprintf("path[%d].subtreeVersion", i), p.SubtreeVersion)
		if err != nil {
			return nil, err
		}
		h := p.SiblingHash
		out = append(out, BridgeIAVLStep{IsDataOnRight: p.IsDataOnRight, SubtreeHeight: uint32(p.SubtreeHeight), SubtreeSize: sz, SubtreeVersion: ver, SiblingHash: h[:]})
	}
	return out, nil
}

func unpackInto(args abi.Arguments, data []byte, out any) error {
	vals, err := args.Unpack(data)
	if err != nil {
		return err
	}
	return args.Copy(out, vals)
}

// BridgeDecodeRelay decodes the block-relay half of a proof blob.
func BridgeDecodeRelay(data []byte) (BridgeRelay, error) {
	var raw struct {
		MultiStore struct {
			OracleIAVLStateHash                   [32]byte
			MintStoreMerkleHash                   [32]byte
			ParamsToRestakeStoresMerkleHash       [32]byte
			RollingseedToTransferStoresMerkleHash [32]byte
			TssToUpgradeStoresMerkleHash          [32]byte
			AuthToIcahostStoresMerkleHash         [32]byte
		}
		MerkleParts struct {
			VersionAndChainIdHash             [32]byte
			Height                            uint64
			TimeSecond                        uint64
			TimeNanoSecond                    uint32
			LastBlockIdAndOther               [32]byte
			NextValidatorHashAndConsensusHash [32]byte
			LastResultsHash                   [32]byte
			EvidenceAndProposerHash           [32]byte
		}
		CommonEncodedVotePart struct {
			SignedDataPrefix []byte
			SignedDataSuffix []byte
		}
		Signatures []struct {
			R                [32]byte
			S                [32]byte
			V                uint8
			EncodedTimestamp []byte
		}
	}
	if err := unpackInto(bridgeRelayArgs, data, &raw); err != nil {
		return BridgeRelay{}, err
	}
	c := func(h [32]byte) []byte { return append([]byte(nil), h[:]...) }
	r := BridgeRelay{
		MultiStore: BridgeMultiStore{c(raw.MultiStore.OracleIAVLStateHash), c(raw.MultiStore.MintStoreMerkleHash), c(raw.MultiStore.ParamsToRestakeStoresMerkleHash),
			c(raw.MultiStore.RollingseedToTransferStoresMerkleHash), c(raw.MultiStore.TssToUpgradeStoresMerkleHash), c(raw.MultiStore.AuthToIcahostStoresMerkleHash)},
		Parts: BridgeHeaderParts{c(raw.MerkleParts.VersionAndChainIdHash), raw.MerkleParts.Height, raw.MerkleParts.TimeSecond, raw.MerkleParts.TimeNanoSecond,
			c(raw.MerkleParts.LastBlockIdAndOther), c(raw.MerkleParts.NextValidatorHashAndConsensusHash), c(raw.MerkleParts.LastResultsHash), c(raw.MerkleParts.EvidenceAndProposerHash)},
		Common: BridgeCommonVote{raw.CommonEncodedVotePart.SignedDataPrefix, raw.CommonEncodedVotePart.SignedDataSuffix},
	}
	for _, s := range raw.Signatures {
		r.Signatures = append(r.Signatures, BridgeSignature{R: c(s.R), S: c(s.S), V: uint32(s.V), EncodedTimestamp: s.EncodedTimestamp})
	}
	return r, nil
}

// BridgeDecodeOracleData decodes the result-verification half of a proof blob.
func BridgeDecodeOracleData(data []byte) (BridgeOracleData, error) {
	var raw struct {
		BlockHeight *big.Int
		Result      BridgeResult
		Version     *big.Int
		MerklePaths []abiPath
	}
	if err := unpackInto(bridgeVerifyArgs, data, &raw); err != nil {
		return BridgeOracleData{}, err
	}
	h, err := u64("blockHeight", raw.BlockHeight)
	if err != nil {
		return BridgeOracleData{}, err
	}
	ver, err := u64("version", raw.Version)
	if err != nil {
		return BridgeOracleData{}, err
	}
	paths, err := convPaths(raw.MerklePaths)
	if err != nil {
		return BridgeOracleData{}, err
	}
	return BridgeOracleData{BlockHeight: h, Result: raw.Result, Version: ver, Paths: paths}, nil
}

// BridgeDecodeCountData decodes the count-verification half of a proof blob.
func BridgeDecodeCountData(data []byte) (BridgeCountData, error) {
	var raw struct {
		BlockHeight *big.Int
		Count       *big.Int
		Version     *big.Int
		MerklePaths []abiPath
	}
	if err := unpackInto(bridgeVerifyCountArgs, data, &raw); err != nil {
		return BridgeCountData{}, err
	}
	h, err := u64("blockHeight", raw.BlockHeight)
	if err != nil {
		return BridgeCountData{}, err
	}
	cnt, err := u64("count", raw.Count)
	if err != nil {
		return BridgeCountData{}, err
	}
	ver, err := u64("version", raw.Version)
	if err != nil {
		return BridgeCountData{}, err
	}
	paths, err := convPaths(raw.MerklePaths)
	if err != nil {
		return BridgeCountData{}, err
	}
	return BridgeCountData{BlockHeight: h, Count: cnt, Version: ver, Paths: paths}, nil
}

// BridgeSplitProof splits a single-result or count blob (bytes, bytes).
func BridgeSplitProof(blob []byte) (relay, data []byte, err error) {
	var raw struct{ A, B []byte }
	if err := unpackInto(bridgeOuterArgs, blob, &raw); err != nil {
		return nil, nil, err
	}
	return raw.A, raw.B, nil
}

// BridgeSplitMultiProof splits a multi-result blob (bytes, bytes[]).
func BridgeSplitMultiProof(blob []byte) (relay []byte, data [][]byte, err error) {
	var raw struct {
		A []byte
		B [][]byte
	}
	if err := unpackInto(bridgeOuterMultiArgs, blob, &raw); err != nil {
		return nil, nil, err
	}
	return raw.A, raw.B, nil
}
