// Package ref holds independent reference code written from the property statements (never from the
// implementation under test).
package ref

import (
	"crypto/hmac"
	"crypto/sha256"
	"encoding/binary"
	"errors"
	"math/big"
	"sort"
)

// Drbg is HMAC_DRBG(SHA-256) per NIST SP 800-90A r1 10.1.2, written from the standard.
type Drbg struct{ k, v []byte }

func mac(k []byte, parts ...[]byte) []byte {
	m := hmac.New(sha256.New, k)
	for _, p := range parts {
		m.Write(p)
	}
	return m.Sum(nil)
}

func (d *Drbg) update(data []byte) {
	d.k = mac(d.k, d.v, []byte{0}, data)
	d.v = mac(d.k, d.v)
	if len(data) == 0 {
		return
	}
	d.k = mac(d.k, d.v, []byte{1}, data)
	d.v = mac(d.k, d.v)
}

func NewDrbg(entropy, nonce, pers []byte) (*Drbg, error) {
	if len(entropy) < 16 {
		return nil, errors.New("insufficient entropy")
	}
	d := &Drbg{k: make([]byte, 32), v: make([]byte, 32)}
	for i := range d.v {
		d.v[i] = 1
	}
	seed := append(append(append([]byte{}, entropy...), nonce...), pers...)
	d.update(seed)
	return d, nil
}

// Generate returns n bytes as one generate request.
func (d *Drbg) Generate(n int) []byte {
	var out []byte
	for len(out) < n {
		d.v = mac(d.k, d.v)
		out = append(out, d.v...)
	}
	d.update(nil)
	return out[:n]
}

// NextU64: the sampling specification's stream element: one 8-byte generate request, big endian.
func (d *Drbg) NextU64() uint64 { return binary.BigEndian.Uint64(d.Generate(8)) }

// ChooseOneRef: cumulative-weight pick r mod sum(w); returns the first index whose cumulative weight exceeds r.
func ChooseOneRef(d *Drbg, w []uint64) int {
	sum := new(big.Int)
	for _, x := range w {
		sum.Add(sum, new(big.Int).SetUint64(x))
	}
	r := new(big.Int).SetUint64(d.NextU64())
	r.Mod(r, sum)
	cum := new(big.Int)
	for i, x := range w {
		cum.Add(cum, new(big.Int).SetUint64(x))
		if cum.Cmp(r) > 0 {
			return i
		}
	}
	panic("unreachable")
}

// ChooseSomeRef: cnt picks without replacement, order of the remaining pool preserved.
func ChooseSomeRef(d *Drbg, w []uint64, cnt int) []int {
	type ent struct {
		idx int
		w   uint64
	}
	pool := make([]ent, len(w))
	for i, x := range w {
		pool[i] = ent{i, x}
	}
	out := []int{}
	for r := 0; r < cnt; r++ {
		ws := make([]uint64, len(pool))
		for i, e := range pool {
			ws[i] = e.w
		}
		c := ChooseOneRef(d, ws)
		out = append(out, pool[c].idx)
		np := make([]ent, 0, len(pool)-1)
		np = append(np, pool[:c]...)
		np = append(np, pool[c+1:]...)
		pool = np
	}
	return out
}

// ChooseSomeMaxWeightRef: best of `tries` by strictly greater weight sum (first best wins).
func ChooseSomeMaxWeightRef(d *Drbg, w []uint64, cnt, tries int) []int {
	var best []int
	bestSum := new(big.Int)
	for t := 0; t < tries; t++ {
		cand := ChooseSomeRef(d, w, cnt)
		s := new(big.Int)
		for _, i := range cand {
			s.Add(s, new(big.Int).SetUint64(w[i]))
		}
		if s.Cmp(bestSum) > 0 {
			best, bestSum = cand, s
		}
	}
	return best
}

// PartialFisherYatesRef: pick `cnt` of n positions: r mod (n-i), take it, move the last live element into
// the hole; result sorted ascending (positions are in id order, so ascending position = ascending id).
func PartialFisherYatesRef(d *Drbg, n, cnt int) []int {
	idx := make([]int, n)
	for i := range idx {
		idx[i] = i
	}
	out := []int{}
	for i := 0; i < cnt; i++ {
		live := uint64(n - i)
		r := int(d.NextU64() % live)
		out = append(out, idx[r])
		idx[r] = idx[n-i-1]
	}
	sort.Ints(out)
	return out
}
