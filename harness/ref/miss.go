package ref

// Reference predicates for property C15 ("validators are deactivated only for genuine misses; reactivation
// only after the penalty"). Written from the property statement and the documentation of the feeds
// constant MaxGuaranteeBlockTime, not from the keeper code. All times are unix seconds, heights are block
// heights.
//
// Boundary conventions (DESIGN.md §3 C15, paragraph L):
//   - price age is pinned strictly: a price submitted at ts is "sufficiently recent" at `now` iff
//     ts + interval >= now (the complement, ts + interval < now, is the miss condition);
//   - "already active before the request was made" is strict: since < requestTime;
//   - at the exact end of a grace / penalty period (now == start + period) the statement is silent: both
//     outcomes are acceptable (Either).

// Tri is a three valued answer: the statement demands No, demands Yes, or is silent (Either).
type Tri int

const (
	No Tri = iota
	Yes
	Either
)

func (t Tri) String() string {
	switch t {
	case No:
		return "no"
	case Yes:
		return "yes"
	}
	return "either"
}

// GuaranteeBlockSeconds is the documented block-height fallback: a period of D seconds that started in block
// h0 is only regarded as over once more than D/GuaranteeBlockSeconds blocks have been produced since h0
// (slow blocks are counted as at most this many seconds). This is the default; callers pass the chain's
// constant (feeds/types.MaxGuaranteeBlockTime) in FeedsMissInput.BlockSeconds, its value is configuration and
// not part of the property.
const GuaranteeBlockSeconds int64 = 3

// OracleMiss is the oracle side of a genuine miss: the request expired, the validator was one of the chosen
// ones, it has no report for it, it is active and has been so since strictly before the request was made.
func OracleMiss(expired, chosen, reported, active bool, since, requestTime int64) bool {
	return expired && chosen && !reported && active && since < requestTime
}

// FeedsMissInput describes one (validator, current feed) pair at the end of a block.
type FeedsMissInput struct {
	Now, Height int64 // the block being ended
	Active      bool  // validator is oracle-active
	Since       int64 // time of its activation
	Grace       int64 // feeds GracePeriod (seconds)
	UpdTime     int64 // time of the last feed-list update
	UpdBlock    int64 // height of the last feed-list update
	Interval    int64 // the feed's interval (seconds)
	HasPrice    bool  // the validator has an accepted submission for this signal
	PriceTime   int64 // block time of that submission
	PriceBlock  int64 // block height of that submission
	// BlockSeconds is the assumed maximum block time of the block-height fallback (0 = GuaranteeBlockSeconds).
	BlockSeconds int64
}

// periodOver compares elapsed with period: >0 the period is over, 0 exactly at its end, <0 still running.
func periodOver(elapsed, period int64) int {
	switch {
	case elapsed > period:
		return 1
	case elapsed == period:
		return 0
	}
	return -1
}

// FeedsMiss is the feeds side of a genuine miss for one current feed: the validator is active, has no
// sufficiently recent price, the grace period after its activation is over, the grace period after the last
// feed-list update is over, and the block-height fallback (same periods counted in blocks of at most
// BlockSeconds) is over as well.
//
// margin is the distance (in seconds resp. blocks) of the tightest clock to its boundary: the decision is a
// miss iff every clock has margin > 0, so margin in {-1,0,+1} means the decision was taken within one unit of
// a boundary; clock names that tightest clock.
func FeedsMiss(in FeedsMissInput) (res Tri, margin int64, clock string) {
	if !in.Active {
		return No, -1 << 40, "inactive"
	}
	bs := in.BlockSeconds
	if bs <= 0 {
		bs = GuaranteeBlockSeconds
	}
	margin = 1 << 40
	upd := func(m int64, name string) {
		if m < margin {
			margin, clock = m, name
		}
	}
	pinnedOK := true // conjuncts with a pinned (strict) boundary
	graceState := 1  // min over the grace clocks: 1 over, 0 exactly at the end, -1 running

	// price age (pinned): miss only if ts + interval < now; block fallback for the same period
	if in.HasPrice {
		m := in.Now - (in.PriceTime + in.Interval)
		upd(m, "price-age")
		if !(in.PriceTime+in.Interval < in.Now) {
			pinnedOK = false
		}
		// more than interval/BlockSeconds blocks since the submission
		mb := blocksMargin(in.Height-in.PriceBlock, in.Interval, bs)
		upd(mb, "price-blocks")
		if !((in.Height-in.PriceBlock)*bs > in.Interval) {
			pinnedOK = false
		}
	}
	// grace after activation
	g := periodOver(in.Now-in.Since, in.Grace)
	upd(in.Now-in.Since-in.Grace, "grace-activation")
	if g < graceState {
		graceState = g
	}
	// grace after the feed-list update, in seconds ...
	g = periodOver(in.Now-in.UpdTime, in.Grace)
	upd(in.Now-in.UpdTime-in.Grace, "grace-update")
	if g < graceState {
		graceState = g
	}
	// ... and in blocks
	g = periodOver((in.Height-in.UpdBlock)*bs, in.Grace)
	upd(blocksMargin(in.Height-in.UpdBlock, in.Grace, bs), "grace-update-blocks")
	if g < graceState {
		graceState = g
	}
	switch {
	case !pinnedOK || graceState < 0:
		return No, margin, clock
	case graceState == 0:
		return Either, margin, clock
	}
	return Yes, margin, clock
}

// blocksMargin returns how many blocks beyond (positive) or before (<= 0) the first block at which a period
// of `period` seconds counts as over in the block-height fallback: over iff blocks*bs > period, i.e. iff
// blocks >= floor(period/bs)+1; the margin is blocks - floor(period/bs).
func blocksMargin(blocks, period, bs int64) int64 {
	q := period / bs
	if period < 0 && period%bs != 0 {
		q-- // floor
	}
	return blocks - q
}

// ActivationAllowed says whether an activation request may succeed: only for an inactive validator, and if
// it has been deactivated before only once the penalty has elapsed since that deactivation.
func ActivationAllowed(active, everDeactivated bool, since, penalty, now int64) Tri {
	if active {
		return No
	}
	if !everDeactivated {
		return Yes
	}
	switch periodOver(now-since, penalty) {
	case 1:
		return Yes
	case 0:
		return Either
	}
	return No
}
