package ref

// Reference for the x/feeds price aggregation (property C06), written from x/feeds/README.md ("Update Prices":
// Input / Constraint / Procedure) and the C06 property statement. It deliberately shares nothing with
// x/feeds/types/median.go: no scaled integers, no section index walking - power is laid out on the rational
// line [0,T) and every entry's weight is the integral of a piecewise constant multiplier over its interval.
//
// Conventions (where the README is explicit it is followed; where it is silent the choice is documented):
//
//  * Only AVAILABLE entries take part in the median; T is the total power of those AVAILABLE entries
//    (README Procedure 1 filters first, Procedure 2 "calculate the total power from the list").
//  * Order: Timestamp descending, then Power descending (README). Entries equal in both keep their INPUT order
//    (README silent; the code uses a stable sort and the callers pass validators in staking power-index order,
//    so this is the only deterministic choice that does not invent a new key). FeedMedianDetail reports
//    whether that choice mattered for the result (TieOrderMatters).
//  * Segments of the power line: [0,T/32) x6, [T/32,3T/32) x4, [3T/32,7T/32) x2, [7T/32,15T/32) x1.1, rest x1
//    ("first 1/32", "next 1/16", "next 1/8", "next 1/4", "any power outside these segments x1"). An entry
//    overlapping several segments is split (README). The README's assumption "no entry above 25%" is NOT
//    assumed - the splitting rule is total, so it is simply applied.
//  * Weighted median: prices ascending, the answer is the smallest price whose cumulative weight reaches half
//    of the total weight (cum >= W/2, the LOWER weighted median). README: "the price at which the cumulative
//    power crosses half of the total weighted power" - at exact equality "crosses" is ambiguous; the lower
//    median is what DESIGN.md/C06 fixes and what the code does (GTE). ExactHalf reports that the case sits on
//    this boundary.
//  * Status (statement): UNKNOWN_SIGNAL_ID when 2*unsupported > total; else AVAILABLE exactly when
//    total >= quorum and 2*available >= total; else NOT_READY. "total" is the power of every listed entry
//    (an entry in the list is a report). UNKNOWN and AVAILABLE cannot both hold (2u > t implies 2a < t).

import (
	"math/big"
	"sort"
)

// Signal price statuses (numeric values of the protobuf enum feeds.v1beta1.SignalPriceStatus).
const (
	FeedEntryUnspecified = 0
	FeedEntryUnsupported = 1
	FeedEntryUnavailable = 2
	FeedEntryAvailable   = 3
)

// Price statuses (numeric values of the protobuf enum feeds.v1beta1.PriceStatus).
const (
	FeedPriceUnknownSignalID = 1
	FeedPriceNotReady        = 2
	FeedPriceAvailable       = 3
)

// FeedEntry is one validator report for one signal.
type FeedEntry struct {
	Status int
	Power  *big.Int
	Price  uint64
	Time   int64
}

// FeedMedianInfo is the reference median plus the diagnostics the checks classify cases with.
type FeedMedianInfo struct {
	OK              bool       // false: no AVAILABLE entry with positive weight, the median is undefined
	Price           uint64     // the lower weighted median
	NAvailable      int        // number of AVAILABLE entries
	Weights         []*big.Rat // weight of every AVAILABLE entry in recency order
	Splits          int        // entries whose power interval contains a segment boundary strictly inside
	TimeTie         bool       // two AVAILABLE entries share a timestamp
	KeyTie          bool       // two AVAILABLE entries share (timestamp, power)
	ExactHalf       bool       // cumulative weight equals exactly half of the total at the returned price
	TieOrderMatters bool       // reversing the input order of entries equal in (time,power) changes the price
	Min, Max        uint64     // smallest / largest AVAILABLE price
}

var feedSegments = []struct {
	upTo *big.Rat // right end of the segment as a fraction of T
	mult *big.Rat
}{
	{big.NewRat(1, 32), big.NewRat(6, 1)},
	{big.NewRat(1+2, 32), big.NewRat(4, 1)},       // + 1/16
	{big.NewRat(1+2+4, 32), big.NewRat(2, 1)},     // + 1/8
	{big.NewRat(1+2+4+8, 32), big.NewRat(11, 10)}, // + 1/4
	{big.NewRat(1, 1), big.NewRat(1, 1)},          // the rest
}

// overlap returns the length of [a,b) ∩ [lo,hi).
func ratOverlap(a, b, lo, hi *big.Rat) *big.Rat {
	l := a
	if lo.Cmp(l) > 0 {
		l = lo
	}
	h := b
	if hi.Cmp(h) < 0 {
		h = hi
	}
	if h.Cmp(l) <= 0 {
		return new(big.Rat)
	}
	return new(big.Rat).Sub(h, l)
}

func feedMedianOrdered(av []FeedEntry, info *FeedMedianInfo) {
	T := new(big.Int)
	for _, e := range av {
		T.Add(T, e.Power)
	}
	tr := new(big.Rat).SetInt(T)
	// absolute segment ends
	ends := make([]*big.Rat, len(feedSegments))
	for i, s := range feedSegments {
		ends[i] = new(big.Rat).Mul(s.upTo, tr)
	}
	weights := make([]*big.Rat, len(av))
	pos := new(big.Rat)
	splits := 0
	for i, e := range av {
		a := new(big.Rat).Set(pos)
		b := new(big.Rat).Add(pos, new(big.Rat).SetInt(e.Power))
		w := new(big.Rat)
		lo := new(big.Rat)
		split := false
		for si, s := range feedSegments {
			hi := ends[si]
			w.Add(w, new(big.Rat).Mul(ratOverlap(a, b, lo, hi), s.mult))
			if si < len(feedSegments)-1 && hi.Cmp(a) > 0 && hi.Cmp(b) < 0 {
				split = true
			}
			lo = hi
		}
		if split {
			splits++
		}
		weights[i] = w
		pos = b
	}
	info.Weights = weights
	info.Splits = splits

	// lower weighted median over distinct prices
	total := new(big.Rat)
	byPrice := map[uint64]*big.Rat{}
	var prices []uint64
	for i, e := range av {
		total.Add(total, weights[i])
		if _, ok := byPrice[e.Price]; !ok {
			byPrice[e.Price] = new(big.Rat)
			prices = append(prices, e.Price)
		}
		byPrice[e.Price].Add(byPrice[e.Price], weights[i])
	}
	sort.Slice(prices, func(i, j int) bool { return prices[i] < prices[j] })
	info.OK = false
	if total.Sign() <= 0 {
		return
	}
	half := new(big.Rat).Quo(total, big.NewRat(2, 1))
	cum := new(big.Rat)
	for _, p := range prices {
		cum.Add(cum, byPrice[p])
		if c := cum.Cmp(half); c >= 0 {
			info.OK, info.Price, info.ExactHalf = true, p, c == 0
			return
		}
	}
}

func feedSortRecency(av []FeedEntry) {
	sort.SliceStable(av, func(i, j int) bool {
		if av[i].Time != av[j].Time {
			return av[i].Time > av[j].Time
		}
		return av[i].Power.Cmp(av[j].Power) > 0
	})
}

// FeedMedianDetail computes the reference median of the AVAILABLE entries with diagnostics.
func FeedMedianDetail(entries []FeedEntry) FeedMedianInfo {
	var info FeedMedianInfo
	var av []FeedEntry
	for _, e := range entries {
		if e.Status == FeedEntryAvailable {
			av = append(av, e)
		}
	}
	info.NAvailable = len(av)
	if len(av) == 0 {
		return info
	}
	info.Min, info.Max = av[0].Price, av[0].Price
	for _, e := range av {
		if e.Price < info.Min {
			info.Min = e.Price
		}
		if e.Price > info.Max {
			info.Max = e.Price
		}
	}
	feedSortRecency(av)
	for i := 1; i < len(av); i++ {
		if av[i].Time == av[i-1].Time {
			info.TimeTie = true
			if av[i].Power.Cmp(av[i-1].Power) == 0 {
				info.KeyTie = true
			}
		}
	}
	feedMedianOrdered(av, &info)
	if info.KeyTie && info.OK {
		// the same with every run of (time,power)-equal entries reversed
		rev := append([]FeedEntry(nil), av...)
		for i := 0; i < len(rev); {
			j := i + 1
			for j < len(rev) && rev[j].Time == rev[i].Time && rev[j].Power.Cmp(rev[i].Power) == 0 {
				j++
			}
			for a, b := i, j-1; a < b; a, b = a+1, b-1 {
				rev[a], rev[b] = rev[b], rev[a]
			}
			i = j
		}
		var alt FeedMedianInfo
		feedMedianOrdered(rev, &alt)
		info.TieOrderMatters = alt.OK && alt.Price != info.Price
	}
	return info
}

// FeedPowers returns (total, available, unsupported) power of the listed entries.
func FeedPowers(entries []FeedEntry) (total, available, unsupported *big.Int) {
	total, available, unsupported = new(big.Int), new(big.Int), new(big.Int)
	for _, e := range entries {
		total.Add(total, e.Power)
		switch e.Status {
		case FeedEntryAvailable:
			available.Add(available, e.Power)
		case FeedEntryUnsupported:
			unsupported.Add(unsupported, e.Power)
		}
	}
	return
}

// FeedStatus is the status rule of the C06 statement. atBoundary reports that one of the three comparisons is
// decided at (or one unit next to) equality.
func FeedStatus(entries []FeedEntry, quorum *big.Int) (status int, atBoundary bool) {
	total, avail, unsup := FeedPowers(entries)
	two := big.NewInt(2)
	u2 := new(big.Int).Mul(unsup, two)
	a2 := new(big.Int).Mul(avail, two)
	near := func(x, y *big.Int, lo, hi int64) bool { // lo <= x-y <= hi
		d := new(big.Int).Sub(x, y)
		return d.Cmp(big.NewInt(lo)) >= 0 && d.Cmp(big.NewInt(hi)) <= 0
	}
	if total.Sign() > 0 {
		atBoundary = near(u2, total, 0, 1) || near(total, quorum, -1, 0) || near(a2, total, -1, 0)
	}
	switch {
	case u2.Cmp(total) > 0:
		return FeedPriceUnknownSignalID, atBoundary
	case total.Cmp(quorum) >= 0 && a2.Cmp(total) >= 0:
		return FeedPriceAvailable, atBoundary
	default:
		return FeedPriceNotReady, atBoundary
	}
}

// FeedPrice is the complete reference: status, and for AVAILABLE the median. ok=false means the statement
// demands an AVAILABLE price although no AVAILABLE report exists (only possible with quorum 0 and no report).
func FeedPrice(entries []FeedEntry, quorum *big.Int) (status int, price uint64, ok bool, info FeedMedianInfo, atBoundary bool) {
	status, atBoundary = FeedStatus(entries, quorum)
	if status != FeedPriceAvailable {
		return status, 0, true, info, atBoundary
	}
	info = FeedMedianDetail(entries)
	return status, info.Price, info.OK, info, atBoundary
}

// FeedQuorumPower is the power needed for a price quorum given as a decimal fraction (numerator over 10^18) of
// the total bonded tokens: the fraction of the bonded tokens, rounded down to whole tokens. (The README only
// says "price quorum percentage"; rounding down to an integer amount of power follows the code - see the C06
// report: a reporting power of floor(q*T) is accepted although it is up to one base unit short of q*T.)
func FeedQuorumPower(totalBonded *big.Int, quorumE18 *big.Int) *big.Int {
	x := new(big.Int).Mul(totalBonded, quorumE18)
	return x.Quo(x, new(big.Int).Exp(big.NewInt(10), big.NewInt(18), nil))
}
