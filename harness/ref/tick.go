package ref

// High precision reference for the tick <-> price relation of property C11:
//
//	price(t) = 10^9 * 1.0001^t          (prices are 10^9 fixed point integers, 1 .. 2^64-1)
//	encoded tick = t + 2^18,  t in [-(2^18-1), 2^18-1]
//	PriceToTick(p) = the largest t with price(t) <= p, i.e. price(t) <= p < price(t+1)
//
// Everything is evaluated with 384-bit big.Float arithmetic (>= 320 bits asked by the design). 1.0001 is not a
// binary fraction: the base carries a relative error of 2^-384, exponentiation by |t| < 2^18 in at most 36
// rounded multiplications keeps the relative error of price(t) below 2^-360, far below the 2^-64 guard band.

import (
	"math"
	"math/big"
	"sync"
)

const (
	TickPrec         = 384
	TickMax    int64 = 262143 // 2^18 - 1
	TickMin    int64 = -TickMax
	TickOffset int64 = 262144 // 2^18
)

var (
	tickOnce  sync.Once
	tickBase  *big.Float   // 1.0001
	tickPows  []*big.Float // 1.0001^(2^i), i = 0..17
	tickE9    *big.Float
	tickGuard *big.Float // 2^-64
)

func tickInit() {
	tickOnce.Do(func() {
		f := func() *big.Float { return new(big.Float).SetPrec(TickPrec) }
		tickBase = f().Quo(f().SetInt64(10001), f().SetInt64(10000))
		tickPows = make([]*big.Float, 18)
		tickPows[0] = tickBase
		for i := 1; i < 18; i++ {
			tickPows[i] = f().Mul(tickPows[i-1], tickPows[i-1])
		}
		tickE9 = f().SetInt64(1_000_000_000)
		tickGuard = f().SetMantExp(f().SetInt64(1), -64)
	})
}

// TickPrice returns 10^9 * 1.0001^t for |t| <= 2^18 (nil outside).
func TickPrice(t int64) *big.Float {
	tickInit()
	a := t
	if a < 0 {
		a = -a
	}
	if a > TickOffset {
		return nil
	}
	r := new(big.Float).SetPrec(TickPrec).SetInt64(1)
	for i := 0; i < 18; i++ {
		if a&(1<<uint(i)) != 0 {
			r.Mul(r, tickPows[i])
		}
	}
	if a == TickOffset {
		r.Mul(r, tickPows[17])
		r.Mul(r, tickPows[17])
		// a == 2^18 has no bit below 18 set; r was 1, now 1.0001^(2^18)
	}
	if t < 0 {
		r.Quo(new(big.Float).SetPrec(TickPrec).SetInt64(1), r)
	}
	return r.Mul(r, tickE9)
}

// TickBoundaryInts returns floor(price(t)) and ceil(price(t)) as integers.
func TickBoundaryInts(t int64) (floor, ceil *big.Int) {
	b := TickPrice(t)
	if b == nil {
		return nil, nil
	}
	floor, acc := b.Int(nil)
	ceil = new(big.Int).Set(floor)
	if acc != big.Exact { // Int truncates towards zero; b > 0 so Below means a fractional part was dropped
		ceil.Add(ceil, big.NewInt(1))
	}
	return floor, ceil
}

// TickCmp is the judgement of one inequality.
type TickCmp int

const (
	TickOK   TickCmp = iota // holds with a margin of at least 2^-64 relative
	TickNear                // |p - boundary| / boundary < 2^-64 : not judged
	TickBad                 // violated with a margin of at least 2^-64 relative
)

// cmpGuard compares p with boundary b: returns -1/+1 if p is below/above b by at least 2^-64 relative, 0 if nearer.
func cmpGuard(p uint64, b *big.Float) int {
	pf := new(big.Float).SetPrec(TickPrec).SetUint64(p)
	d := new(big.Float).SetPrec(TickPrec).Sub(pf, b)
	sign := d.Sign()
	d.Abs(d)
	lim := new(big.Float).SetPrec(TickPrec).Mul(b, tickGuard)
	if d.Cmp(lim) < 0 {
		return 0
	}
	return sign
}

// JudgeTick judges "t is the largest tick whose price does not exceed p": lower is price(t) <= p, upper is
// p < price(t+1). A tick outside [TickMin, TickMax] is TickBad on both sides.
func JudgeTick(p uint64, t int64) (lower, upper TickCmp) {
	if t < TickMin || t > TickMax || p == 0 {
		return TickBad, TickBad
	}
	switch cmpGuard(p, TickPrice(t)) {
	case 0:
		lower = TickNear
	case -1:
		lower = TickBad
	}
	switch cmpGuard(p, TickPrice(t+1)) {
	case 0:
		upper = TickNear
	case 1:
		upper = TickBad
	}
	return lower, upper
}

// RefTick returns the largest t with price(t) <= p by exact search in the reference (no guard band), for
// statistics and for constructing cases; p >= 1.
func RefTick(p uint64) int64 {
	tickInit()
	pf := new(big.Float).SetPrec(TickPrec).SetUint64(p)
	lo, hi := TickMin-1, TickMax+1 // invariant: price(lo) <= p < price(hi) (with lo = TickMin-1 meaning "none")
	for hi-lo > 1 {
		mid := lo + (hi-lo)/2
		if TickPrice(mid).Cmp(pf) <= 0 {
			lo = mid
		} else {
			hi = mid
		}
	}
	return lo
}

// TickDistanceUnits returns the distance of p to the nearer of the two boundaries price(t), price(t+1) in
// price units, capped at 2^62 (used for the "within one unit of a boundary" non-triviality rule).
func TickDistanceUnits(p uint64, t int64) float64 {
	pf := new(big.Float).SetPrec(TickPrec).SetUint64(p)
	best := float64(1 << 62)
	for _, tt := range []int64{t, t + 1} {
		b := TickPrice(tt)
		if b == nil {
			continue
		}
		d, _ := new(big.Float).SetPrec(TickPrec).Sub(pf, b).Float64()
		if d < 0 {
			d = -d
		}
		if d < best {
			best = d
		}
	}
	return best
}

// TickAbsDiff returns |p - price(t)| in price units (as float64; +Inf for an unsupported t).
func TickAbsDiff(p uint64, t int64) float64 {
	b := TickPrice(t)
	if b == nil {
		return math.Inf(1)
	}
	d, _ := new(big.Float).SetPrec(TickPrec).Sub(new(big.Float).SetPrec(TickPrec).SetUint64(p), b).Float64()
	return math.Abs(d)
}
